#!/usr/bin/env python3
"""Regenerates /verif/MANIFEST.json from the table below (single source of truth for the interface)."""
import json, os
V = os.path.dirname(os.path.dirname(os.path.abspath(__file__)))
ids = [json.loads(l)["id"] for l in open(os.path.join(V, "properties.jsonl"))]
TB = "TLC 1.8.0 and the TLA+ modules under /verif/spec (SmNum exact arithmetic, SmSem reference semantics); the harness under /verif/harness (driver, alpha abstraction of floats to rationals, specval float layer cross-checked by TLC); CPython/libm of this platform"
CHECKS = {
 "C01": ("E-eval", "EvalCases.tla: TLC evaluates the reference semantics (exact rationals) and the operational model of Expression.at on every case of the bounded universe, and judges every outcome recorded from the real library (spec->code replay + code->spec trace validation in one run); irrational cases by the spec-bound float layer",
         "TLC model checking of operational-vs-reference evaluation + trace validation of the real Expression.at"),
 "C02": ("E-eval", "EvalCases.tla on the boundary universe: every domain-restricted constructor as offending child under every parent kind (zero factors, zero numerators, base one, constant folds, n-ary positions) at points on/next to every boundary; TLC decides 'raises iff undefined' on the recorded outcomes",
         "TLC model checking of domain rules (Verify/Formula guards vs strict reference domain) + trace validation"),
}
m = {"version": 1,
     "setup_cmd": "cd /verif && ./bin/setup.sh",
     "hooks": {"guard": "SMOOTHMATH_VERIF", "enable": "no hooks are needed: every check imports /repo/src (current working tree) in a fresh interpreter and observes public return values / exceptions; the guard name is reserved",
               "baseline_off_cmd": "cd /repo && /venv/bin/python -m pytest -ra -q -p no:cacheprovider --timeout=900 --continue-on-collection-errors",
               "source_commits": [], "add_only": True},
     "engines": [], "checks": [], "not_applicable": [],
     "notes": "All checks: ./check <ID>; VERIF_TIER / VERIF_SEED honoured; exit 2 = machinery failure. Fix commits in /repo: see known_findings.json (fixed entries)."}
eng = {}
for pid in ids:
    if pid in CHECKS:
        e, text, tech = CHECKS[pid]
        eng.setdefault(e, []).append(pid)
        m["checks"].append({"property_id": pid, "quick_cmd": f"./check {pid}", "thorough_cmd": f"./check {pid} --tier thorough",
                            "evidence_file": f"/verif/evidence/{pid}.json", "replay_cmd_template": f"./check {pid} --replay {{path}}",
                            "engine": e, "level_claimed": {"category": "model_checking", "text": text, "design_ref": f"DESIGN.md section 3 ({pid})"},
                            "level_note": TB, "technique": tech})
    else:
        m["not_applicable"].append({"property_id": pid, "reason": "check under construction in this session (claimed once its engine is committed)"})
for e, ps in eng.items():
    m["engines"].append({"name": e, "path": "/verif/harness", "serves_properties": ps, "kind_free_text": "TLA+ spec + TLC + conformance harness"})
json.dump(m, open(os.path.join(V, "MANIFEST.json"), "w"), indent=1)
print("checks:", [c["property_id"] for c in m["checks"]])
