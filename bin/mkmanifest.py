#!/usr/bin/env python3
"""Regenerates /verif/MANIFEST.json from the table below (single source of truth for the interface)."""
import json, os
V = os.path.dirname(os.path.dirname(os.path.abspath(__file__)))
ids = [json.loads(l)["id"] for l in open(os.path.join(V, "properties.jsonl"))]
TB = "TLC 1.8.0 and the TLA+ modules under /verif/spec (SmNum exact arithmetic, SmSem reference semantics); the harness under /verif/harness (driver, alpha abstraction of floats to rationals, specval float layer cross-checked by TLC); CPython/libm of this platform"
CHECKS = {
 "C01": ("E-eval", "EvalCases.tla: TLC evaluates the reference semantics (exact rationals) and the operational model of Expression.at on every case of the bounded universe, and judges every outcome recorded from the real library (spec->code replay + code->spec trace validation in one run); irrational cases by the spec-bound float layer",
         "TLC model checking of operational-vs-reference evaluation + trace validation of the real Expression.at"),
 "C02": ("E-eval", "EvalCases.tla on the boundary universe: every domain-restricted constructor as offending child under every parent kind (zero factors, zero numerators, base one, constant folds, n-ary positions) at points on/next to every boundary; TLC decides 'raises iff undefined' on the recorded outcomes",
         "TLC model checking of domain rules (Verify/Formula guards vs strict reference domain) + trace validation"),
 "C03": ("E-diff", "DiffCases.tla: TLC compares the operational model of forward-mode differentiation (SmDiffNum.Fw: per-node evaluate/verify/recurse/formula with the value memo threaded through) with the dual-number reference DVal on the bounded universe (U2, chain-rule towers, 3-4-factor products, absent variable, Variable/str spelling) and judges every outcome recorded from late Partial.at / Derivative.at",
         "TLC model checking of forward-mode model vs dual-number reference + trace validation of Partial.at / Derivative.at"),
 "C04": ("E-diff", "DiffCases.tla: operational model of reverse mode (SmDiffNum.Rv: multiplier passing, accumulator name->running sum, read-back of the root's variables) vs DVal for every variable at once, incl. DAG pools with shared node objects and zero factors in every position; outcomes recorded from LocatedDifferential.component and Differential.at.component",
         "TLC model checking of reverse-mode accumulator model vs dual-number reference + trace validation"),
 "C07": ("E-diff", "DiffCases.tla on the boundary universe (offending child under every parent kind where a differentiation rule could skip it: exponent of a base that evaluates to one, factor next to zero, zero numerator, variable-free sub-trees, absent differentiation variable): TLC decides 'raises DomainError iff the reference value is undefined' for every numeric route on recorded outcomes",
         "TLC model checking of domain re-verification in both traversals + trace validation of all late numeric routes"),
 "C14": ("E-eval", "EvalCases.tla with points that supply every subset of the expression's variables plus extra coordinates, and the bare-number entry: TLC decides 'never CoordinateMissing when all occurring variables are supplied', 'never a number when one is lacking', 'bare number accepted iff <= 1 variable'",
         "TLC model checking of coordinate lookup / single-variable entry + trace validation"),
 "C17": ("E-eval", "EvalCases.tla: the operational model returns PyErr wherever Python would raise a foreign exception (math.log of x<=0, ...); TLC checks it is unreachable on the universe (DesignOK) and that no recorded outcome is a foreign exception, NaN, infinity or complex (cases whose exact intermediates overflow are excluded via the float layer)",
         "TLC model checking that every guard in front of every Python primitive suffices + trace validation"),
 "C08": ("E-reduce", "ReduceCases.tla: SmReduce transcribes every rewrite rule, the children-first driver, both memo flags, constant folding, the NF pass and the step budget; for every input of the rule universe the complete derivation recorded from the real rewriter (single-stepped, flags included) is judged by TLC: every adjacent pair, the NF pair and the end-to-end pair are sound on every grid point w.r.t. the reference semantics; the model is run next to it (step-by-step conformance, and the design-level invariant that every model step is sound except the named finding)",
         "TLC checking of the rewrite system model + step-by-step trace validation of the real rewriter"),
 "C11": ("E-reduce", "ReduceCases.tla: on every recorded derivation TLC checks no structural form is revisited, the step count is within 2n^2+10, the final form is rule-free according to the spec's own NoRuleApplies (flags ignored), memo flags are truthful, and inputs of <= 20 nodes finish inside the library's budget without the warning",
         "TLC checking of termination/no-revisit/rule-freeness on recorded derivations + model conformance"),
 "C05": ("E-sym", "SymCases.tla: the expressions handed out by Partial/Derivative.as_expression (forward symbolic route) and by early Differential components (reverse route with symbolic multipliers) are recorded and judged by TLC at every grid point against the dual-number reference (defined on the original's domain, equal value, no new variable, well-formed) and, differentiated once more through the public API, against the second-order reference; SmDiffSym+SmReduce predict the exact expression and are themselves checked against the reference",
         "TLC evaluation of recorded symbolic derivatives against the reference semantics + operational model of both symbolic routes"),
}
m = {"version": 1,
     "setup_cmd": "cd /verif && ./bin/setup.sh",
     "hooks": {"guard": "SMOOTHMATH_VERIF", "enable": "no hooks are needed: every check imports /repo/src (current working tree) in a fresh interpreter and observes public return values / exceptions; the guard name is reserved",
               "baseline_off_cmd": "cd /repo && /venv/bin/python -m pytest -ra -q -p no:cacheprovider --timeout=900 --continue-on-collection-errors",
               "source_commits": [], "add_only": True},
     "engines": [], "checks": [], "not_applicable": [],
     "notes": "All checks: ./check <ID>; VERIF_TIER / VERIF_SEED honoured; exit 2 = machinery failure. Fix commits in /repo: see known_findings.json (fixed entries)."}
eng = {}
for pid in ids:
    if pid in CHECKS:
        e, text, tech = CHECKS[pid]
        eng.setdefault(e, []).append(pid)
        m["checks"].append({"property_id": pid, "quick_cmd": f"./check {pid}", "thorough_cmd": f"./check {pid} --tier thorough",
                            "evidence_file": f"/verif/evidence/{pid}.json", "replay_cmd_template": f"./check {pid} --replay {{path}}",
                            "engine": e, "level_claimed": {"category": "model_checking", "text": text, "design_ref": f"DESIGN.md section 3 ({pid})"},
                            "level_note": TB, "technique": tech})
    else:
        m["not_applicable"].append({"property_id": pid, "reason": "check under construction in this session (claimed once its engine is committed)"})
for e, ps in eng.items():
    m["engines"].append({"name": e, "path": "/verif/harness", "serves_properties": ps, "kind_free_text": "TLA+ spec + TLC + conformance harness"})
json.dump(m, open(os.path.join(V, "MANIFEST.json"), "w"), indent=1)
print("checks:", [c["property_id"] for c in m["checks"]])
