#!/usr/bin/env python3
"""Regenerates /verif/MANIFEST.json from the table below (single source of truth for the interface)."""
import json, os
V = os.path.dirname(os.path.dirname(os.path.abspath(__file__)))
ids = [json.loads(l)["id"] for l in open(os.path.join(V, "properties.jsonl"))]
TB = "TLC 1.8.0 and the TLA+ modules under /verif/spec (SmNum exact arithmetic, SmSem reference semantics); the harness under /verif/harness (driver, alpha abstraction of floats to rationals, specval float layer cross-checked by TLC); CPython/libm of this platform"
CHECKS = {
 "C01": ("E-eval", "EvalCases.tla: TLC evaluates the reference semantics (exact rationals) and the operational model of Expression.at on every case of the bounded universe, and judges every outcome recorded from the real library (spec->code replay + code->spec trace validation in one run); irrational cases by the spec-bound float layer",
         "TLC model checking of operational-vs-reference evaluation + trace validation of the real Expression.at"),
 "C02": ("E-eval", "EvalCases.tla on the boundary universe: every domain-restricted constructor as offending child under every parent kind (zero factors, zero numerators, base one, constant folds, n-ary positions) at points on/next to every boundary; TLC decides 'raises iff undefined' on the recorded outcomes",
         "TLC model checking of domain rules (Verify/Formula guards vs strict reference domain) + trace validation"),
 "C03": ("E-diff", "DiffCases.tla: TLC compares the operational model of forward-mode differentiation (SmDiffNum.Fw: per-node evaluate/verify/recurse/formula with the value memo threaded through) with the dual-number reference DVal on the bounded universe (U2, chain-rule towers, 3-4-factor products, absent variable, Variable/str spelling) and judges every outcome recorded from late Partial.at (a fresh object, and a LONG-LIVED object asked twice with an evaluation at another point in between) and Derivative.at (Point / bare number); points include -1/-2 (equal hashes) in sequence and float points next to boundaries",
         "TLC model checking of forward-mode model vs dual-number reference + trace validation of Partial.at / Derivative.at"),
 "C04": ("E-diff", "DiffCases.tla: operational model of reverse mode (SmDiffNum.Rv: multiplier passing, accumulator name->running sum, read-back of the root's variables) vs DVal for every variable at once, incl. DAG pools with shared node objects and zero factors in every position; outcomes recorded from LocatedDifferential.component, Differential.at.component and a LONG-LIVED late Differential (component_at for one variable, then at(p) for all)",
         "TLC model checking of reverse-mode accumulator model vs dual-number reference + trace validation"),
 "C07": ("E-diff", "DiffCases.tla on the boundary universe (offending child under every parent kind where a differentiation rule could skip it: exponent of a base that evaluates to one, factor next to zero, zero numerator, variable-free sub-trees, absent differentiation variable): TLC decides 'raises DomainError iff the reference value is undefined' for every late numeric route and for the EARLY long-lived Partial and early Differential.at (queried before anything else at each point, so stale caches show), KF-1 attributed through the recorded derivation",
         "TLC model checking of domain re-verification in both traversals + trace validation of all late numeric routes"),
 "C14": ("E-eval", "EvalCases.tla with points that supply every subset of the expression's variables plus extra coordinates, and the bare-number entry: TLC decides 'never CoordinateMissing when all occurring variables are supplied', 'never a number when one is lacking', 'bare number accepted iff <= 1 variable'",
         "TLC model checking of coordinate lookup / single-variable entry + trace validation"),
 "C17": ("E-eval", "EvalCases.tla: the operational model returns PyErr wherever Python would raise a foreign exception (math.log of x<=0, ...); TLC checks it is unreachable on the universe (DesignOK) and that no recorded outcome is a foreign exception, NaN, infinity or complex on ANY route: evaluation (EvalCases), every derivative query early and late (DiffCases), as_expression and second-order (SymCases), plus probes of objects that should not be constructible; cases whose exact intermediates over/underflow are excluded via the float layer",
         "TLC model checking that every guard in front of every Python primitive suffices + trace validation"),
 "C08": ("E-reduce", "ReduceCases.tla: SmReduce transcribes every rewrite rule, the children-first driver, both memo flags, constant folding, the NF pass and the step budget; for every input of the rule universe the complete derivation recorded from the real rewriter (single-stepped, flags included) is judged by TLC: every adjacent pair, the NF pair and the end-to-end pair are sound on every grid point w.r.t. the reference semantics; the model is run next to it (step-by-step conformance, and the design-level invariant that every model step is sound except the named finding)",
         "TLC checking of the rewrite system model + step-by-step trace validation of the real rewriter"),
 "C11": ("E-reduce", "ReduceCases.tla: on every recorded derivation TLC checks no structural form is revisited, the step count is within 2n^2+10, the final form is rule-free according to the spec's own NoRuleApplies (flags ignored), memo flags are truthful, and inputs of <= 20 nodes finish inside the library's budget without the warning",
         "TLC checking of termination/no-revisit/rule-freeness on recorded derivations + model conformance"),
 "C05": ("E-sym", "SymCases.tla: the expressions handed out by Partial/Derivative.as_expression (forward symbolic route) and by early Differential components (reverse route with symbolic multipliers) are recorded and judged by TLC at every grid point against the dual-number reference (defined on the original's domain, equal value, no new variable, well-formed) and, differentiated once more through the public API, against the second-order reference; SmDiffSym+SmReduce predict the exact expression and are themselves checked against the reference",
         "TLC evaluation of recorded symbolic derivatives against the reference semantics + operational model of both symbolic routes"),
 "C06": ("E-api", "Smoothmath.tla/SmoothmathMC.tla: the state machine over pools of shared expression objects with long-lived derivative objects (late objects switch to the symbolic path after as_expression); TLC checks RoutesAgree and AsExprStable in EVERY reachable state (all histories), and ApiTrace.tla validates recorded behaviours: every pair of recorded outcomes of the same query through different routes / early-late / before-after as_expression agrees (route matrices), early and late as_expression() are structurally equal",
         "TLC exhaustive exploration of the API state machine (RoutesAgree in every state) + trace validation of route matrices on the real library"),
 "C09": ("E-api", "SmoothmathMC.tla: exhaustive breadth-first exploration with VIEW <<memo, synth>> reaches the fixpoint, i.e. histories of ANY length over the modelled pools; invariant HistoryFree: in every reachable state every possible next call gives the outcome it gives on never-used copies (and the reference outcome); 8 mutant constants (dropped resets, non-recursive reset, ...) each yield a counterexample; behaviours exported from TLC (-simulate with the history variable) and directed A-B-A sequences are executed on the real library on a shared pool and call by call on fresh copies, and judged event by event by ApiTrace.tla",
         "TLC exhaustive state-space exploration (fixpoint over histories) + mutant configs + replay of TLC behaviours + trace validation"),
 "C10": ("E-api", "Smoothmath.tla: the pool is never modified by any action (OperandsUnchanged, trivially true of the model: the model says what unchanged means); the substance is conformance: after EVERY call of every replayed behaviour the pool's structure is re-read from the live objects and TLC checks it equals the model's heap (ApiTrace.tla), together with repr/str/hash/== fingerprints of every pool object, point, live derivative object and every expression handed out earlier",
         "TLC trace validation with the full projected state logged after every call (structure of all shared objects) + action property on the model"),
 "C12": ("E-algebra", "AlgebraCases.tla defines structural equality (Eq on parameter-normalised records, EqObj for points and derivative objects); TLC checks Eq is an equivalence on the fed triples and judges every recorded comparison: one-edit pairs (parameter, leaf, argument order, arity incl. prefix-related lists, sibling constructor), int/float respellings, points in permuted order, derivative objects in early/late/already-computed states, foreign objects; hash equality and set/dict lookups for equal objects",
         "TLC evaluation of the spec's structural equality on enumerated pairs/triples vs recorded ==, !=, hash, set/dict behaviour"),
 "C13": ("E-algebra", "AlgebraCases.tla defines the printed grammar Repr/ReprObj; TLC checks it is injective on non-equal expressions of the universe and that every recorded repr/str equals it; the harness evaluates the printed text with the public names in scope (a Python parser is outside TLA+) and TLC judges the logged round-trip verdict; unequal expressions with slightly different parameters never print identically",
         "TLC comparison of recorded repr/str with the spec grammar + eval(repr) round trip in the harness"),
 "C15": ("E-algebra", "AlgebraCases.tla: OperatorResult table; TLC judges every recorded operator application (-a, a+b, a-b, a*b, a/b, a**b with Expression exponents incl. integral Constants, a**k for int and integral-float k) against the unsimplified, unreordered constructor tree, and that non-expression operands / non-integral / non-positive exponents (also near-integral floats) are rejected",
         "TLC comparison of recorded operator results with the constructor table + rejection classes"),
 "C16": ("E-algebra", "AlgebraCases.tla: Accepts table over argument classes (n: ints, integral/non-integral floats of any sign, -0.0, inf, nan, near-integral, str, None; base: any sign, one, default, non-numeric; names: empty, word/non-word characters incl. trailing newline, non-strings; operands: foreign objects in every position of unary/binary/n-ary constructors); TLC judges raised <=> not Accepts and that parameters are reported back",
         "TLC evaluation of the acceptance table vs recorded constructor behaviour"),
 "C18": ("E-determinism", "Determinism.tla: the iteration order of variable-name sets is chosen nondeterministically and every observable is shown independent of it (two mutant configs must fail); conformance: the same behaviours run in separate interpreter processes for 8 (thorough: 66) hash seeds with permuted coordinate order and variable creation order, canonical traces (float.hex, structural expressions) compared byte for byte, and one of them validated by ApiTrace.tla",
         "TLC model of set-iteration nondeterminism + cross-process byte comparison + trace validation of one process"),
}
m = {"version": 1,
     "setup_cmd": "cd /verif && ./bin/setup.sh",
     "hooks": {"guard": "SMOOTHMATH_VERIF", "enable": "no hooks are needed: every check imports /repo/src (current working tree) in a fresh interpreter and observes public return values / exceptions; the guard name is reserved",
               "baseline_off_cmd": "cd /repo && /venv/bin/python -m pytest -ra -q -p no:cacheprovider --timeout=900 --continue-on-collection-errors",
               "source_commits": [], "add_only": True},
     "engines": [], "checks": [], "not_applicable": [],
     "notes": "All checks: ./check <ID>; VERIF_TIER / VERIF_SEED honoured; exit 2 = machinery failure. Fix commits in /repo: see known_findings.json (fixed entries)."}
eng = {}
for pid in ids:
    if pid in CHECKS:
        e, text, tech = CHECKS[pid]
        eng.setdefault(e, []).append(pid)
        m["checks"].append({"property_id": pid, "quick_cmd": f"./check {pid}", "thorough_cmd": f"./check {pid} --tier thorough",
                            "evidence_file": f"/verif/evidence/{pid}.json", "replay_cmd_template": f"./check {pid} --replay {{path}}",
                            "engine": e, "level_claimed": {"category": "model_checking", "text": text, "design_ref": f"DESIGN.md section 3 ({pid})"},
                            "level_note": TB, "technique": tech})
    else:
        m["not_applicable"].append({"property_id": pid, "reason": "check under construction in this session (claimed once its engine is committed)"})
for e, ps in eng.items():
    m["engines"].append({"name": e, "path": "/verif/harness", "serves_properties": ps, "kind_free_text": "TLA+ spec + TLC + conformance harness"})
json.dump(m, open(os.path.join(V, "MANIFEST.json"), "w"), indent=1)
print("checks:", [c["property_id"] for c in m["checks"]])
