#!/usr/bin/env python3
"""For every confirmed seeded defect under /verif/seeded/<id>/ run the quick check of its own property (and of the related
properties listed below) against a scratch worktree with the patch applied; record what caught it in meta.json."""
import json, os, re, subprocess, sys
V = "/verif"
RELATED = {"C01": ["C09"], "C02": ["C07"], "C03": ["C06", "C09"], "C04": ["C08"], "C05": ["C08"], "C06": ["C03", "C09"], "C07": ["C09"], "C08": ["C05"],
           "C09": ["C10", "C06"], "C10": ["C09"], "C11": ["C08"], "C12": [], "C13": ["C16"], "C14": ["C17"], "C15": ["C16", "C10"], "C16": [], "C17": ["C08", "C16"], "C18": []}
only = sys.argv[1:]
for d in sorted(os.listdir(f"{V}/seeded")):
    if only and d not in only:
        continue
    pid = d[:3]
    checks = [pid] + RELATED.get(pid, [])
    out = subprocess.run([f"{V}/bin/seedrun.sh", d, f"{V}/seeded/{d}/patch.diff"] + checks, capture_output=True, text=True).stdout
    res = {}
    for m in re.finditer(r"SEED \S+ check=(\S+) rc=(\d+) violation_lines=(\d+)[ \t]*(.*)", out):
        res[m.group(1)] = {"rc": int(m.group(2)), "violation_lines": int(m.group(3)), "first_clause": m.group(4)[:160]}
    notes = open(f"{V}/seeded/{d}/notes.md").read()
    meta = {"seed": d, "breaks_property": pid,
            "needs_to_manifest": " ".join(notes.split())[:900],
            "confirmed_by_me": {"applies_to": "/repo HEAD (after the three fix: commits)", "tests_with_patch": open(f"{V}/seeded/{d}/.tests").read().strip(),
                                "demo": "demo.py <src> exits 1 with the patch, 0 without (bin/verify_seeds.sh, scratch worktree)"},
            "checks_run": {"how": "bin/seedrun.sh: scratch worktree of /repo + patch, SMOOTHMATH_SRC pointed at it, quick tier", "results": res},
            "caught_by": sorted(k for k, v in res.items() if v["rc"] == 1), "own_property_check_catches_it": res.get(pid, {}).get("rc") == 1}
    json.dump(meta, open(f"{V}/seeded/{d}/meta.json", "w"), indent=1)
    print(d, "caught_by", meta["caught_by"], {k: v["rc"] for k, v in res.items()}, flush=True)
