#!/bin/sh
# usage: bin/seedrun.sh <name> <patch.diff> <ID> [<ID> ...]
# Runs the quick checks against a SCRATCH worktree of /repo with the patch applied (never touches /repo itself);
# evidence of these runs goes to a scratch directory.  Prints one summary line per check.
name="$1"; patch="$2"; shift 2
wt=/tmp/seedrun/$name
rm -rf "$wt"; mkdir -p /tmp/seedrun
git -C /repo worktree add -q --detach "$wt" HEAD || exit 3
git -C "$wt" apply "$patch" || { echo "$name: patch does not apply"; git -C /repo worktree remove --force "$wt"; exit 3; }
for id in "$@"; do
  out=$(SMOOTHMATH_SRC="$wt/src" VERIF_EVID_DIR="/tmp/seedrun/ev_$name" VERIF_TMP="/tmp/seedrun/work_$name" /verif/check "$id" 2>&1); rc=$?
  nv=$(printf '%s\n' "$out" | grep -c '^VIOLATION')
  first=$(printf '%s\n' "$out" | grep -m1 'clause=' | cut -c1-220)
  echo "SEED $name check=$id rc=$rc violation_lines=$nv $first"
done
git -C /repo worktree remove --force "$wt"
rm -rf "/tmp/seedrun/ev_$name" "/tmp/seedrun/work_$name"
