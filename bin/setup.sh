#!/bin/sh
# offline setup: syntax-check every TLA+ module, byte-compile the harness (to a scratch dir, not the tree)
set -e
cd /verif/spec
for f in *.tla; do
  java -cp /opt/veriftools/tla/tla2tools.jar:/opt/veriftools/tla/CommunityModules-deps.jar tla2sany.SANY "$f" > /tmp/.sany.$$ 2>&1 || { cat /tmp/.sany.$$; rm -f /tmp/.sany.$$; echo "SANY failed on $f"; exit 1; }
  if grep -q "Fatal errors\|Semantic errors\|Parse Error" /tmp/.sany.$$; then cat /tmp/.sany.$$; rm -f /tmp/.sany.$$; exit 1; fi
done
rm -f /tmp/.sany.$$
cd /verif/harness
/venv/bin/python - <<'PY'
import ast, glob, sys
for f in glob.glob("*.py"):
    ast.parse(open(f).read(), f)
print("setup ok")
PY
mkdir -p /verif/evidence /verif/.work
