#!/usr/bin/env python3
"""prints the quick-tier size table of DESIGN.md from the evidence files of the last runs"""
import json, glob
print("| check | judged evaluations | behaviours / cases validated against the implementation | TLC states | wall |\n|---|---|---|---|---|")
for f in sorted(glob.glob("/verif/evidence/C*.json")):
    e = json.load(open(f)); c = e["coverage"]
    print(f"| {e['property_id']} | {c.get('evaluations')} | {c.get('traces_validated_against_impl')} | {c.get('states')} | {round(e['wall_s'])} s |")
