#!/bin/sh
# usage: bin/try_seed.sh <patch.diff> <ID> [<ID> ...]   -- applies the patch to /repo, runs the quick checks, ALWAYS reverts
patch="$1"; shift
git -C /repo apply "$patch" || { echo "patch does not apply"; exit 3; }
trap 'git -C /repo checkout -- . ; git -C /repo status --short | head -3' EXIT INT TERM
for id in "$@"; do
  out=$(/verif/check "$id" 2>&1); rc=$?
  nv=$(printf '%s\n' "$out" | grep -c '^VIOLATION')
  echo "== $id rc=$rc violations_lines=$nv"
  printf '%s\n' "$out" | grep -E '^VIOLATION|clause=|MACHINERY|^\[' | head -${SHOW:-6} | cut -c1-330
done
