#!/bin/sh
# Confirms every sub-agent seed myself in a scratch worktree: (1) applies cleanly, (2) the 150 tests pass with it,
# (3) its demonstration fails with it and (4) passes without it.  Keeps confirmed ones under /verif/seeded/<id>/.
wt=/tmp/seedverify
rm -rf $wt; git -C /repo worktree add -q --detach $wt HEAD || exit 3
for pid in C01 C02 C03 C04 C05 C06 C07 C08 C09 C10 C11 C12 C13 C14 C15 C16 C17 C18; do
  for k in 1 2; do
    src=${SEEDSRC:-/tmp/seed}/$pid.out
    [ -f $src/mut$k.diff ] || { echo "$pid mut$k: missing"; continue; }
    git -C $wt checkout -q -- . ; git -C $wt clean -fdq
    /venv/bin/python $src/mut${k}_demo.py $wt/src >/dev/null 2>&1; clean_rc=$?
    git -C $wt apply $src/mut$k.diff || { echo "$pid mut$k: does not apply"; continue; }
    tests=$(cd $wt && /venv/bin/python -m pytest -q -p no:cacheprovider 2>&1 | tail -1)
    /venv/bin/python $src/mut${k}_demo.py $wt/src >/tmp/seedverify_demo.out 2>&1; mut_rc=$?
    ok=no
    case "$tests" in *"150 passed"*) [ $clean_rc -eq 0 ] && [ $mut_rc -ne 0 ] && ok=yes;; esac
    echo "$pid mut$k: tests=[$tests] demo_clean_rc=$clean_rc demo_mutant_rc=$mut_rc confirmed=$ok"
    if [ $ok = yes ]; then
      d=/verif/seeded/${pid}_${SEEDTAG:-}mut$k; mkdir -p $d
      cp $src/mut$k.diff $d/patch.diff; cp $src/mut${k}_demo.py $d/demo.py; cp $src/mut$k.md $d/notes.md
      printf '%s\n' "$tests" > $d/.tests
    fi
  done
done
git -C $wt checkout -q -- . ; git -C /repo worktree remove --force $wt
