"""Entry point of every check:  ./check <ID> [--tier quick|thorough] [--replay path] [--selftest]
exit 0 = property held on everything explored; exit 1 + 'VIOLATION property=<id> replay=<path>' = violated;
exit 2 = machinery failure (never a verdict)."""
from __future__ import annotations
import os, sys, traceback
sys.dont_write_bytecode = True
sys.path.insert(0, os.path.dirname(os.path.abspath(__file__)))
os.environ.setdefault("PYTHONHASHSEED", "0")
import common

ENGINE = {"C01": "eng_eval", "C02": "eng_eval", "C14": "eng_eval", "C17": "eng_eval",
          "C03": "eng_diff", "C04": "eng_diff", "C07": "eng_diff",
          "C08": "eng_reduce", "C11": "eng_reduce", "C05": "eng_sym",
          "C06": "eng_api", "C09": "eng_api", "C10": "eng_api",
          "C12": "eng_algebra", "C13": "eng_algebra", "C15": "eng_algebra", "C16": "eng_algebra", "C18": "eng_det"}


def main(argv):
    if not argv:
        print(__doc__)
        return 2
    pid = argv[0]
    args = argv[1:]
    if "--tier" in args:
        os.environ["VERIF_TIER"] = args[args.index("--tier") + 1]
    tier, seed = common.tier(), common.seed()
    if pid == "util":
        import eng_util
        return eng_util.run()
    if pid not in ENGINE:
        print(f"unknown property {pid}")
        return 2
    try:
        mod = __import__(ENGINE[pid])
        if "--replay" in args:
            import tempfile
            common.EVID = tempfile.mkdtemp(prefix="replay-", dir=os.path.join(common.VERIF, ".work") if os.path.isdir(os.path.join(common.VERIF, ".work")) else None)
            common.REPLAYS = os.path.join(common.EVID, "replays")      # a replay never rewrites evidence/<id>.json
            return mod.replay(pid, args[args.index("--replay") + 1])
        if "--selftest" in args:
            import selftest
            return selftest.run(pid)
        return mod.run(pid, tier, seed)
    except (common.Machinery,) as exc:
        print(f"MACHINERY-FAILURE property={pid}: {exc}")
        return 2
    except Exception as exc:
        import tlcrun
        if isinstance(exc, tlcrun.TlcFailure):
            print(f"MACHINERY-FAILURE property={pid}: {exc}")
            return 2
        traceback.print_exc()
        print(f"MACHINERY-FAILURE property={pid}: {type(exc).__name__}: {exc}")
        return 2


if __name__ == "__main__":
    sys.exit(main(sys.argv[1:]))
