"""Shared plumbing of the checks: tiers, seeds, evidence files, violation reporting, known findings."""
from __future__ import annotations
import hashlib, json, os, sys, time

VERIF = os.path.dirname(os.path.dirname(os.path.abspath(__file__)))
EVID = os.environ.get("VERIF_EVID_DIR") or os.path.join(VERIF, "evidence")   # (redirected only by the seeded-defect runner)
REPLAYS = os.path.join(EVID, "replays")
KNOWN = os.path.join(VERIF, "known_findings.json")


def tier():
    t = os.environ.get("VERIF_TIER", "quick")
    return t if t in ("quick", "thorough") else "quick"


def seed():
    try:
        return int(os.environ.get("VERIF_SEED", "0"))
    except ValueError:
        return 0


class Machinery(Exception):
    """framework failure: exit 2, never a verdict"""


def load_known():
    if not os.path.exists(KNOWN):
        return {"known": [], "fixed": []}
    return json.load(open(KNOWN))


def write_ndjson(path, rows):
    with open(path, "w") as f:
        for r in rows:
            f.write(json.dumps(r, separators=(",", ":")))
            f.write("\n")


class Report:
    """collects what a run covered and what it found, then writes evidence/<id>.json"""

    def __init__(self, pid, tier_, seed_):
        self.pid, self.tier, self.seed = pid, tier_, seed_
        self.t0 = time.time()
        self.violations = []      # dicts: {clause, case, ...}
        self.known_hits = []      # (finding id, description)
        self.cov = {"evaluations": 0, "distinct_nontrivial": 0, "states": 0, "transitions": 0,
                    "traces_validated_against_impl": 0, "samples": []}
        self.assumptions = []
        self.other = {}           # violations of OTHER properties seen on the way (informational)

    def add_tlc(self, res, transitions=None):
        self.cov["states"] += int(res.get("distinct") or 0)
        self.cov["transitions"] += int(transitions if transitions is not None else (res.get("generated") or 0))
        self.cov.setdefault("tlc_runs", []).append({"cmd": res.get("cmd", "")[-200:], "generated": res.get("generated"),
                                                     "distinct": res.get("distinct"), "wall_s": round(res.get("wall", 0), 1)})

    def violation(self, clause, case, detail=None):
        self.violations.append({"clause": clause, "case": case, "detail": detail})

    def known(self, fid, what):
        """a violation attributed to a finding listed in known_findings.json (only for the properties listed there)"""
        kf = {k["id"]: k for k in load_known().get("known", [])}
        if fid in kf and self.pid in kf[fid].get("properties", []):
            self.known_hits.append((fid, what))
        else:
            self.other["attributed_to_" + fid] = self.other.get("attributed_to_" + fid, 0) + 1

    def finish(self, extra_cov=None, exhaustive=None):
        os.makedirs(REPLAYS, exist_ok=True)
        if extra_cov:
            self.cov.update(extra_cov)
        if exhaustive is not None:
            self.cov["exhaustive"] = exhaustive
        self.cov["known_findings_hit"] = sorted({f for f, _ in self.known_hits})
        self.cov["other_property_clauses_seen"] = self.other
        ev = {"property_id": self.pid, "tier": self.tier, "seed": self.seed, "level": "model_checking",
              "coverage": self.cov, "assumptions": self.assumptions, "wall_s": round(time.time() - self.t0, 2),
              "violations": len(self.violations)}
        if not self.cov["samples"]:
            self.cov["samples"] = ["(no case was generated)"]
        seen = set()
        for fid, what in self.known_hits:
            if (fid, what) not in seen:
                seen.add((fid, what))
                print(f"KNOWN-FINDING: property={self.pid} {fid} {what}")
        rc = 0
        shown = 0
        for v in self.violations:
            blob = json.dumps(v, sort_keys=True, default=str)
            hsh = hashlib.sha1(blob.encode()).hexdigest()[:12]
            path = os.path.join(REPLAYS, f"{self.pid}-{hsh}.json")
            with open(path, "w") as f:
                json.dump({"property": self.pid, **v}, f, indent=1, default=str)
            if shown < 25:
                print(f"VIOLATION property={self.pid} replay={path}")
                print(f"  clause={v['clause']} case={json.dumps(v['case'], default=str)[:400]}")
                shown += 1
            rc = 1
        if len(self.violations) > shown:
            print(f"  ... {len(self.violations) - shown} more violations (all written to {REPLAYS})")
        with open(os.path.join(EVID, f"{self.pid}.json"), "w") as f:
            json.dump(ev, f, indent=1, default=str)
        print(f"[{self.pid}] tier={self.tier} seed={self.seed} evaluations={self.cov['evaluations']} "
              f"states={self.cov['states']} traces={self.cov['traces_validated_against_impl']} "
              f"violations={len(self.violations)} known={len(seen)} wall={ev['wall_s']}s")
        return rc
