"""C18 worker: one interpreter process (its PYTHONHASHSEED is set by the parent).  Executes a fixed battery of behaviours on a
pool with several variable names, with the coordinates of every point written in a permuted order and the Variable objects
created in a permuted order, and prints a canonical trace (floats as float.hex(), expressions structurally)."""
import json, os, random, sys
sys.dont_write_bytecode = True
sys.path.insert(0, os.path.dirname(os.path.abspath(__file__)))
import smjson as J, eng_api, eng_reduce


def canon(o):
    if o["k"] in ("q", "f"):
        x = float(o["repr"]) if "." in o["repr"] or "e" in o["repr"] or "n" in o["repr"] else int(o["repr"])
        return {"k": "num", "hex": float(x).hex(), "py": o.get("py")}
    if o["k"] == "expr":
        return {"k": "expr", "s": J.show(o["e"]), "flags": json.dumps(o["e"], sort_keys=True)}
    return o


def main():
    perm_seed = int(sys.argv[2])
    job = json.load(open(sys.argv[1]))
    pool = job["pool"]
    rnd = random.Random(perm_seed)
    S = J.sm()
    # Variable objects created in a permuted order before anything else (and thrown away), then the pool
    names = sorted({n["name"] for n in pool["heap"] if n["op"] == "Variable"})
    rnd.shuffle(names)
    junk = [S.Variable(n) for n in names]
    # coordinates of every point written in a permuted order
    for p in pool["points"]:
        items = list(p.items())
        rnd.shuffle(items)
        p.clear()
        p.update(items)
    out = []
    for tid, calls in enumerate(job["seqs"], 1):
        t = eng_api.replay_behaviour(pool, calls, tid)
        row = {"tid": tid, "outs": [canon(o) for o in t["outs"]], "fresh": [canon(o) for o in t["fresh"]],
               "ftrees": [J.show(f) for f in t["ftrees"]]}
        # value objects as set members / dict keys
        objs = J.build_heap(pool["heap"])
        row["setlen"] = len({o for o in objs} | {o for o in J.build_heap(pool["heap"])})
        out.append(row)
        if job.get("full_trace_for") == perm_seed:
            row["full"] = t
    json.dump(out, sys.stdout, sort_keys=True)


if __name__ == "__main__":
    main()
