"""Engine E-algebra: equality/hash (C12), printing (C13), operators (C15), constructor validation (C16).
spec: spec/AlgebraCases.tla (Eq / EqObj, Repr grammar, OperatorResult, Accepts)."""
from __future__ import annotations
import copy, json, keyword, math, os, random, shutil
import gen, smjson as J, tlcrun
from common import Report, Machinery, write_ndjson

SIB = [("Add", "Multiply"), ("Minus", "Divide", "Power"), ("Negation", "Reciprocal", "Cosine", "Sine"), ("NthPower", "NthRoot"), ("Exponential", "Logarithm")]


def lit_of(v):
    return str(J.v_to_py(v))


def with_lits(e):
    e = dict(e)
    op = e["op"]
    if op == "Constant":
        e["lit"] = lit_of(e["val"])
    elif op in J.NARY:
        e["args"] = [with_lits(c) for c in e["args"]]
    elif op in J.BIN:
        e["l"], e["r"] = with_lits(e["l"]), with_lits(e["r"])
    elif op != "Variable":
        e["a"] = with_lits(e["a"])
        if op in J.BUN:
            e["blit"] = lit_of(e["b"])
    return e


def fl(n, d=1):
    v = gen.q(n, d)
    v["py"] = "float"
    return v


# ---------------------------------------------------------------- object descriptors
def Ex(e): return {"kind": "Expr", "e": with_lits(e)}
def Pt(names, vals): return {"kind": "Point", "names": list(names), "vals": list(vals), "lits": [lit_of(v) for v in vals]}
def Pa(e, v, early=False, touched=False): return {"kind": "Partial", "e": with_lits(e), "v": v, "early": early, "touched": touched}
def De(e, early=False, touched=False): return {"kind": "Derivative", "e": with_lits(e), "early": early, "touched": touched}
def Di(e, early=False): return {"kind": "Differential", "e": with_lits(e), "early": early}
def Lo(e, pt, via="ctor"): return {"kind": "Located", "e": with_lits(e), "pt": pt, "via": via}


def realize(o, k=0):
    S = J.sm()
    kind = o["kind"]
    if kind == "Expr":
        return J.build_tree(o["e"])
    if kind == "Point":
        return S.Point(**{n: J.v_to_py(v) for n, v in zip(o["names"], o["vals"])})
    if kind == "Partial":
        p = S.Partial(J.build_tree(o["e"]), (S.Variable(o["v"]) if k % 2 else o["v"]), compute_early=o["early"])
        if o.get("touched"):
            p.as_expression()
        return p
    if kind == "Derivative":
        d = S.Derivative(J.build_tree(o["e"]), compute_early=o["early"])
        if o.get("touched"):
            d.as_expression()
        return d
    if kind == "Differential":
        return S.Differential(J.build_tree(o["e"]), compute_early=o["early"])
    if kind == "Located":
        via = o.get("via", "ctor")
        if via == "early_at":
            return S.Differential(J.build_tree(o["e"]), compute_early=True).at(realize(o["pt"]))
        if via == "late_at":
            return S.Differential(J.build_tree(o["e"])).at(realize(o["pt"]))
        return S.LocatedDifferential(J.build_tree(o["e"]), realize(o["pt"]))
    if kind == "Foreign":
        return {"none": None, "int": 3, "str": "x", "tuple": (1, 2), "float": 2.5, "list": [1], "object": object()}[o["tag"]]
    raise ValueError(kind)


# ---------------------------------------------------------------- one-edit variants of an expression
def edits(e, rnd):
    """trees that differ from e in exactly one place (parameter / leaf / position / arity / constructor), + equal respellings"""
    out = []

    def here(t):
        op = t["op"]
        v = []
        if op == "Variable":
            v.append(J.Var("y" if t["name"] != "y" else "x"))
        elif op == "Constant":
            val = t["val"]
            if val["k"] == "q":
                v.append(J.ConstV(gen.q(val["n"] + val["d"], val["d"])))
                if val["d"] == 1:
                    v.append(("EQ", J.ConstV(fl(val["n"]) if val.get("py") != "float" else gen.q(val["n"]))))
        elif op in J.NARY:
            a = t["args"]
            if len(a) >= 2:
                v.append(J.Nary(op, *([a[1], a[0]] + a[2:])))
                v.append(J.Nary(op, *a[:-1]))
            v.append(J.Nary(op, *(a + [J.Var("z")])))
            v.append(J.Nary(op, *(a + [J.Const(1)])))
        elif op in J.BIN:
            v.append(J.Bin(op, t["r"], t["l"]))
        elif op in J.KUN:
            v.append(J.KUn(op, t["a"], t["k"] + 1))
        elif op in J.BUN:
            b = t["b"]
            v.append(J.BUn(op, t["a"], gen.q(3) if b != gen.q(3) else gen.q(2)))
            if b["k"] == "q" and b["d"] == 1:
                v.append(("EQ", J.BUn(op, t["a"], fl(b["n"]))))
        for grp in SIB:
            if op in grp:
                for o2 in grp:
                    if o2 != op:
                        t2 = dict(t)
                        t2["op"] = o2
                        if o2 == "Logarithm" and t2["b"] == gen.q(1):
                            continue
                        v.append(t2)
        return v

    def walk(t, rebuild):
        for x in here(t):
            if isinstance(x, tuple):
                out.append(("EQ", rebuild(x[1])))
            else:
                out.append(("NE", rebuild(x)))
        ks = J.kids(t)
        for j, c in enumerate(ks):
            walk(c, lambda new, j=j, ks=ks, t=t, rebuild=rebuild: rebuild(J.with_kids(t, ks[:j] + [new] + ks[j + 1:])))
    walk(e, lambda x: x)
    return out


def base_trees(tier, rnd):
    ts = gen.d1q() + rnd.sample(gen.over(gen.d1q(), ks=(1, 2, 3)), 120 if tier == "quick" else 500) + gen.random_trees(7, 60 if tier == "quick" else 300, depth=3)
    ts += [J.Add(gen.X, gen.Y, J.Var("z")), J.Mul(gen.X, gen.Y, J.Var("z")), J.Add(J.KUn("NthPower", gen.X, 2), J.Const(3)),
           J.Mul(J.Const(2), J.Add(gen.X, gen.Y)), J.BUn("Exponential", gen.X, fl(2)), J.ConstV(fl(2)), J.ConstV(gen.q(1, 2))]
    return [t for t in gen.dedup(ts) if J.size(t) <= 12]


REPLAY = None
DESCRIPTOR_FIELDS = ("kind", "a", "b", "c", "o", "f", "sym", "k", "kspell", "bad", "side", "ctor", "operands_ok", "n", "base", "name", "expect_reject", "maybe_illegal")


def replay(pid, path):
    global REPLAY
    v = json.load(open(path))["case"]
    REPLAY = {k: v[k] for k in DESCRIPTOR_FIELDS if k in v}
    if REPLAY.get("kind") == "ctor":
        print("constructor events are replayed by re-running the (1.5 s) C16 check")
        REPLAY = None
    return run(pid, "quick", 0)


def gen_events(pid, tier, seed):
    if REPLAY is not None:
        return [dict(REPLAY, i=1)]
    rnd = random.Random(6000 + seed)
    quick = tier == "quick"
    ev = []
    bases = base_trees(tier, rnd)
    P = gen.P
    if pid in ("C12", "C13"):
        # expression pairs: identical copy, one edit, unrelated
        for t in bases:
            ev.append({"kind": "refl", "o": Ex(t)})
            es = edits(t, rnd)
            if quick and len(es) > 8:
                es = rnd.sample(es, 8)
            for tag, t2 in es:
                ev.append({"kind": "cmp", "a": Ex(t), "b": Ex(t2)})
            ev.append({"kind": "cmp", "a": Ex(t), "b": Ex(rnd.choice(bases))})
        # transitivity triples, in particular argument lists in a prefix relation
        X, Y, Z = gen.X, gen.Y, J.Var("z")
        trip = [(J.Add(X, Y, Z), J.Add(X, Y), J.Add(X, Y, J.Const(1))), (J.Mul(X, Y), J.Mul(X, Y, Z), J.Mul(X, Y, Y)), (J.Add(), J.Add(X), J.Add(X, X)),
                (J.ConstV(gen.q(2)), J.ConstV(fl(2)), J.ConstV(gen.q(2))), (J.KUn("NthPower", X, 2), J.KUn("NthPower", X, 2), J.KUn("NthPower", X, 3))]
        for t in rnd.sample(bases, 40 if quick else 400):
            es = [x for _, x in edits(t, rnd)]
            if len(es) >= 2:
                trip.append((t, rnd.choice(es), rnd.choice(es)))
                trip.append((rnd.choice(es), t, copy.deepcopy(t)))
        for a, b, c in trip:
            ev.append({"kind": "trans", "a": Ex(a), "b": Ex(b), "c": Ex(c)})
            for wrap in (lambda t: Di(t), lambda t: Pa(t, "x"), lambda t: Di(t, early=True)):
                ev.append({"kind": "trans", "a": wrap(a), "b": wrap(b), "c": wrap(c)})
            if all(len(J.variables(t)) <= 1 for t in (a, b, c)):
                ev.append({"kind": "trans", "a": De(a), "b": De(b), "c": De(c)})
        # points
        pts = [Pt(["x", "y"], [gen.q(3), gen.q(9, 2)]), Pt(["y", "x"], [gen.q(9, 2), gen.q(3)]), Pt(["x", "y"], [fl(3), gen.q(9, 2)]), Pt(["x", "y"], [gen.q(3), gen.q(4)]),
               Pt(["x"], [gen.q(3)]), Pt(["x", "y", "z"], [gen.q(3), gen.q(9, 2), gen.q(0)]), Pt([], []), Pt(["y", "x"], [gen.q(3), gen.q(9, 2)]), Pt(["x", "z"], [gen.q(3), gen.q(9, 2)])]
        # values with EQUAL HASHES in CPython: hash(-1) == hash(-2), hash(0) == hash(2**61 - 1), hash(0.5) == hash(2**60)
        big = {"k": "f", "repr": str(2 ** 61 - 1)}
        pts += [Pt(["x"], [gen.q(-1)]), Pt(["x"], [gen.q(-2)]), Pt(["x", "y"], [gen.q(-1), gen.q(5)]), Pt(["x", "y"], [gen.q(-2), gen.q(5)]),
                Pt(["x"], [gen.q(0)]), Pt(["x"], [fl(-1)]), Pt(["x"], [fl(-2)])]
        for a in pts:
            ev.append({"kind": "refl", "o": a})
            for b in pts:
                ev.append({"kind": "cmp", "a": a, "b": b})
        sq = J.Mul(gen.X, gen.X)
        for ea, eb in ((sq, sq), (J.ConstV(gen.q(-1)), J.ConstV(gen.q(-2))), (J.Mul(J.Const(-1), gen.X), J.Mul(J.Const(-2), gen.X))):
            for pa, pb in ((pts[-7], pts[-6]), (pts[-5], pts[-4])):
                if set(J.variables(ea)) <= set(pa["names"]):
                    ev.append({"kind": "cmp", "a": Lo(ea, pa), "b": Lo(eb, pb)})
            ev.append({"kind": "cmp", "a": Ex(ea), "b": Ex(eb)})
            ev.append({"kind": "cmp", "a": Di(ea), "b": Di(eb)})
        # one LocatedDifferential through every construction route (direct, late Differential.at, early Differential.at): all equal
        for t, names, vals in ((J.Un("Reciprocal", J.Mul(gen.X, gen.Y)), ["x", "y"], [gen.q(3), gen.q(7)]), (J.Bin("Divide", gen.X, J.Mul(gen.Y, gen.Y)), ["x", "y"], [gen.q(3), gen.q(5)]),
                               (J.Bin("Divide", J.KUn("NthPower", gen.X, 2), gen.Y), ["x", "y"], [gen.q(7), gen.q(3)]), (J.Bin("Divide", J.Mul(gen.X, gen.Y), J.Add(gen.X, gen.Y)), ["x", "y"], [gen.q(2), gen.q(3)]),
                               (J.Mul(J.Un("Sine", gen.X), J.BUn("Exponential", gen.Y, gen.E_)), ["x", "y"], [gen.q(1), gen.q(2)])):
            objs = [Lo(t, Pt(names, vals), via) for via in ("ctor", "late_at", "early_at")]
            for a in objs:
                for b in objs:
                    ev.append({"kind": "cmp", "a": a, "b": b})
            ev.append({"kind": "trans", "a": objs[0], "b": objs[1], "c": objs[2]})
        for a, b, c in [(pts[0], pts[1], pts[2]), (pts[0], pts[3], pts[1]), (pts[4], pts[0], pts[5])]:
            ev.append({"kind": "trans", "a": a, "b": b, "c": c})
        # derivative objects: edit in expression / variable / point / early flag / already-computed state
        for t in rnd.sample(bases, 60 if quick else 250):
            vs = sorted(J.variables(t)) or ["x"]
            v = vs[0]
            es = [x for _, x in edits(t, rnd)]
            t2 = rnd.choice(es) if es else J.Add(t, J.Const(3))
            objs = [Pa(t, v), Pa(t, v, early=True), Pa(t, v, touched=True), Pa(t2, v), Pa(t2, v, early=True), Pa(t, "w"), Pa(J.Add(t, J.Const(3)), v, early=True),
                    Pa(J.Bin("Minus", t, J.Const(5)), v, touched=True), Di(t), Di(t, early=True), Di(t2), Di(J.Add(t, J.Const(3)), early=True),
                    Lo(t, Pt(vs, [gen.q(2)] * len(vs))), Lo(t, Pt(vs[::-1], [gen.q(2)] * len(vs))), Lo(t, Pt(vs, [gen.q(3)] * len(vs))), Lo(t2, Pt(vs, [gen.q(2)] * len(vs)))]
            if len(J.variables(t)) <= 1:
                objs += [De(t), De(t, early=True), De(t, touched=True), De(J.Add(t, J.Const(3)), early=True)]
            for a in objs:
                ev.append({"kind": "refl", "o": a})
            for a, b in rnd.sample([(a, b) for a in objs for b in objs], 40 if quick else 120):
                ev.append({"kind": "cmp", "a": a, "b": b})
        # foreign objects
        for t in rnd.sample(bases, 25):
            for o in (Ex(t), Pt(["x"], [gen.q(1)]), Pa(t, "x"), Di(t), Lo(t, Pt(sorted(J.variables(t)), [gen.q(2)] * len(J.variables(t))))):
                for tag in ("none", "int", "str", "tuple", "float", "list", "object"):
                    ev.append({"kind": "foreign", "o": o, "f": {"kind": "Foreign", "tag": tag}})
                ev.append({"kind": "cmp", "a": o, "b": Pt(["x"], [gen.q(1)])})
    if pid == "C13":
        pr = []
        names = ["x", "y", "x1", "_", "é", "self", "class", "whatever", "x_y", "Δt", "a1b2"]
        vals = [gen.q(0), gen.q(11), gen.q(-3), fl(2), gen.q(1, 2), gen.q(-3, 2), {"k": "f", "repr": "1e-07"}, {"k": "f", "repr": "1e+22"}, {"k": "f", "repr": "0.1"},
                {"k": "f", "repr": repr(math.pi)}, {"k": "f", "repr": "123456789012345678"}]
        bases_b = [J.E_, gen.q(2), gen.q(1, 2), gen.q(10), fl(2), {"k": "f", "repr": "2.718281828"}, {"k": "f", "repr": repr(math.nextafter(math.e, 3))},
                   {"k": "f", "repr": "2.7182818"}, {"k": "f", "repr": repr(math.nextafter(math.e, 0))}]
        # names the constructor must refuse: if one is accepted all the same, its printed form has to round-trip like any other
        for n in ["x\n", "a b", "x\"y", "x\\", "a-b", "x\ny", "\n"]:
            pr.append(dict(Ex(J.Var(n)), maybe_illegal=True))
            pr.append(dict(Ex(J.Add(J.Var(n), gen.Y)), maybe_illegal=True))
        for n in names:
            pr.append(Ex(J.Var(n)))
            pr.append(Ex(J.KUn("NthPower", J.Var(n), 2)))
            pr.append(Pa(J.Mul(J.Var(n), gen.Y), n))
        for v in vals:
            pr += [Ex(J.ConstV(v)), Ex(J.Add(gen.X, J.ConstV(v))), Ex(J.Bin("Power", gen.X, J.ConstV(v)))]
        for b in bases_b:
            pr += [Ex(J.BUn("Exponential", gen.X, b)), Ex(J.BUn("Logarithm", J.Add(gen.X, gen.Y), b)), De(J.BUn("Logarithm", gen.X, b)), Pa(J.BUn("Logarithm", gen.X, b), "x")]
        for c1, c2 in ((-1, -2), (-2, -1), (0, 2 ** 61 - 1)):
            for mk in (lambda c: J.Mul(J.Const(c), gen.X), lambda c: J.Add(J.Un("Cosine", gen.X), J.Const(c)), lambda c: J.Mul(J.Un("Sine", gen.X), J.Const(c), gen.Y)):
                if abs(c2) < 30000 and abs(c1) < 30000:
                    pr += [Ex(mk(c1)), Ex(mk(c2)), Di(mk(c1)), Di(mk(c2)), Pa(mk(c1), "x"), Pa(mk(c2), "x")]
        for k in range(1, 8):
            pr += [Ex(J.KUn("NthPower", gen.X, k)), Ex(J.KUn("NthRoot", gen.X, k)), Ex(J.KUn("NthRoot", J.KUn("NthPower", gen.Y, k), k + 1))]
        for t in bases[: (150 if quick else 2000)]:
            pr.append(Ex(t))
            vs = sorted(J.variables(t))
            pr += [Pa(t, vs[0] if vs else "x"), Di(t)]
            if len(vs) <= 1:
                pr.append(De(t))
            pr.append(Lo(t, Pt(vs, [gen.q(2)] * len(vs))))
        pr += [Pt(["x", "y"], [gen.q(3), gen.q(9, 2)]), Pt([], []), Pt(["y", "x"], [fl(3), gen.q(-1, 2)]), Pt(["é", "x1", "_"], [gen.q(1), gen.q(2), gen.q(3)]),
               Pt(["self"], [gen.q(3)]), Pt(["z"], [{"k": "f", "repr": "1e-07"}])]
        for o in pr:
            ev.append({"kind": "print", "o": o})
        # the "unequal expressions never print identically" clause on pairs whose parameters differ slightly
        for b1 in bases_b:
            for b2 in bases_b:
                if b1 is not b2:
                    ev.append({"kind": "cmp", "a": Ex(J.BUn("Logarithm", gen.X, b1)), "b": Ex(J.BUn("Logarithm", gen.X, b2))})
                    ev.append({"kind": "cmp", "a": Ex(J.BUn("Exponential", gen.X, b1)), "b": Ex(J.BUn("Exponential", gen.X, b2))})
        for v1 in vals:
            for v2 in vals:
                if v1 is not v2:
                    ev.append({"kind": "cmp", "a": Ex(J.ConstV(v1)), "b": Ex(J.ConstV(v2))})
    if pid == "C15":
        ops = ["add", "sub", "mul", "div", "pow"]
        pairs = [(a, b) for a in rnd.sample(bases, 40 if quick else 300) for b in rnd.sample(bases, 6)]
        for a, b in pairs:
            for sym in ops:
                ev.append({"kind": "operator", "sym": sym, "a": a, "b": b, "k": 0, "expect_reject": False})
            ev.append({"kind": "operator", "sym": "neg", "a": a, "b": a, "k": 0, "expect_reject": False})
            for sym in ops:       # the SAME object on both sides (a * a, a + a, a ** a ...)
                ev.append({"kind": "operator", "sym": sym, "a": a, "b": a, "k": 0, "expect_reject": False, "same": True})
        for a in rnd.sample(bases, 60 if quick else 500):
            for k in (1, 2, 3, 7, 12):
                for spell in ("int", "float"):
                    ev.append({"kind": "operator", "sym": "powk", "a": a, "b": a, "k": k, "kspell": spell, "expect_reject": False})
            # constants as Expression exponents stay Power nodes (no eager rewriting)
            for cval in (gen.q(2), gen.q(3), fl(2), gen.q(1), gen.q(0), gen.q(-1), gen.q(1, 2), gen.q(5, 2)):
                ev.append({"kind": "operator", "sym": "pow", "a": a, "b": J.ConstV(cval), "k": 0, "expect_reject": False})
            pass
        # an operator-built node must STAY equal to the constructor-built one when it is used afterwards (embedded in a product,
        # differentiated symbolically twice: the simplifier sees the user's own node with its memo flags set)
        X, Y, W = gen.X, gen.Y, J.Var("w")
        for a in (J.Add(X, J.Un("Negation", Y)), J.Mul(X, J.Un("Reciprocal", Y)), J.Add(X, Y), J.Bin("Minus", X, Y), J.Mul(X, Y, J.Un("Negation", X))):
            for sym, k in (("powk", 3), ("powk", 2), ("neg", 0), ("mul", 0), ("add", 0)):
                ev.append({"kind": "operator", "sym": sym, "a": a, "b": Y, "k": k, "kspell": "int", "expect_reject": False, "use_after": True})
        for a in rnd.sample(bases, 60 if quick else 500):
            for bad in ("2.5", "0", "-1", "-2.0", "0.0", "None", "'2'", "nan", "inf", "0.3/0.1", "2.0000000001", "4.999999999", "1e-12", "[2]", "(2,)"):
                ev.append({"kind": "operator", "sym": "powk", "a": a, "b": a, "k": 0, "bad": bad, "expect_reject": True})
            for sym in ops:
                for bad in ("1", "2.0", "None", "'x'", "[a]"):
                    if not (sym == "pow" and bad in ("1", "2.0")):        # a ** 1 and a ** 2.0 are legal (NthPower)
                        ev.append({"kind": "operator", "sym": sym, "a": a, "b": a, "k": 0, "bad": bad, "side": "right", "expect_reject": True})
                    if sym != "pow" or bad != "[a]":
                        ev.append({"kind": "operator", "sym": sym, "a": a, "b": a, "k": 0, "bad": bad, "side": "left", "expect_reject": True})
    if pid == "C16":
        X = gen.X
        ncls = [("int", n) for n in (-2, -1, 0, 1, 2, 6, 100)] + [("intfloat", n) for n in (-2, -1, 0, 1, 2, 6)] + [("negzero", 0)] + \
               [("nonintfloat", 0), ("nonintfloat_neg", 0), ("inf", 0), ("neginf", 0), ("nan", 0), ("str", 0), ("none", 0), ("near2", 0), ("complex", 0), ("list", 0)]
        for ctor in ("NthPower", "NthRoot"):
            for inner_ok in (True, False):
                for c, n in ncls:
                    ev.append({"kind": "ctor", "ctor": ctor, "operands_ok": inner_ok, "n": {"c": ("intfloat" if c == "negzero" else c.split("_")[0] if c.startswith("nonint") else c), "n": n}, "spell": c})
        bcls = [("num", -1, False, "-1"), ("num", -1, False, "-0.5"), ("num", 0, False, "0"), ("num", 0, False, "0.0"), ("num", 0, False, "-0.0"), ("num", 1, True, "1"), ("num", 1, True, "1.0"),
                ("num", 1, False, "0.5"), ("num", 1, False, "2"), ("num", 1, False, "math.e"), ("num", 1, False, "10"), ("num", 1, False, "1e-300"), ("num", 1, False, "1.0000000001"),
                ("num", -1, False, "-1e-300"), ("str", 0, False, "'2'"), ("none", 0, False, "None"), ("default", 0, False, "")]
        for ctor in ("Exponential", "Logarithm"):
            for inner_ok in (True, False):
                for c, sg, one, spell in bcls:
                    ev.append({"kind": "ctor", "ctor": ctor, "operands_ok": inner_ok, "base": {"c": c, "sign": sg, "one": one}, "spell": spell})
        names = [("", True, True), ("x", False, True), ("x1", False, True), ("1x", False, True), ("é", False, True), ("_", False, True), ("self", False, True), ("class", False, True),
                 ("a b", False, False), ("a-b", False, False), ("x\n", False, False), ("\n", False, False), (" x", False, False), ("x ", False, False), ("a.b", False, False),
                 ("x\ny", False, False), ("x\n\n", False, False), ("x\r", False, False), ("x\t", False, False), ("Δ", False, True), ("x²", False, True), ("a'b", False, False), ("\"", False, False),
                 ("x" * 50, False, True), ("x\x00", False, False), ("٣", False, True)]
        for nm, empty, word in names:
            ev.append({"kind": "ctor", "ctor": "Variable", "operands_ok": True, "name": {"c": "str", "empty": empty, "word": word}, "spell": nm})
        for spell in ("None", "3", "['x']", "b'x'"):
            ev.append({"kind": "ctor", "ctor": "Variable", "operands_ok": True, "name": {"c": "other", "empty": False, "word": False}, "spell": "py:" + spell})
        foreign = ["3", "2.5", "'x'", "None", "[x]", "(x,)", "Point(x=1)", "object()", "Expression", "Variable"]
        for ctor in ("Negation", "Reciprocal", "Cosine", "Sine"):
            ev.append({"kind": "ctor", "ctor": ctor, "operands_ok": True, "spell": "x"})
            for f in foreign:
                ev.append({"kind": "ctor", "ctor": ctor, "operands_ok": False, "spell": f})
        for ctor in ("Minus", "Divide", "Power"):
            ev.append({"kind": "ctor", "ctor": ctor, "operands_ok": True, "spell": "x,y"})
            for f in foreign:
                ev.append({"kind": "ctor", "ctor": ctor, "operands_ok": False, "spell": f + ",y"})
                ev.append({"kind": "ctor", "ctor": ctor, "operands_ok": False, "spell": "x," + f})
        for ctor in ("Add", "Multiply"):
            for ok in ("", "x", "x,y", "x,y,x", "x,y,x,y,x"):
                ev.append({"kind": "ctor", "ctor": ctor, "operands_ok": True, "spell": ok})
            for f in foreign:
                for pos in ("{f}", "{f},x", "x,{f}", "x,{f},y", "x,y,{f}", "x,y,x,{f}"):
                    ev.append({"kind": "ctor", "ctor": ctor, "operands_ok": False, "spell": pos.format(f=f)})
    for i, e in enumerate(ev, 1):
        e["i"] = i
    return ev


def run_impl(ev):
    """execute every event on the real library and fill in what happened"""
    S = J.sm()
    ns = {n: getattr(S, n) for n in list(S.ex.__all__) + list(S.sm.__all__)}
    ns["math"] = math
    for k, e in enumerate(ev):
        kind = e["kind"]
        try:
            if kind == "cmp":
                a, b = realize(e["a"], k), realize(e["b"], k + 1)
                a2 = realize(e["a"], k)
                e.update(raised=False, eq=bool(a == b), ne=bool(a != b), eq_rev=bool(b == a), hash_eq=hash(a) == hash(b),
                         member=(b in {a}) and ({a: 1}.get(b) == 1) and (b in [a]), member_other=(b in {a}), repr_a=repr(a), repr_b=repr(b))
            elif kind == "refl":
                a, a2 = realize(e["o"], k), realize(e["o"], k + 1)
                e.update(raised=False, eq=bool(a == a), ne=bool(a != a), copy_eq=bool(a == a2) and bool(a2 == a), copy_hash_eq=hash(a) == hash(a2) and (a2 in {a}))
            elif kind == "trans":
                a, b, c = realize(e["a"], k), realize(e["b"], k), realize(e["c"], k)
                e.update(raised=False, ab=bool(a == b), bc=bool(b == c), ac=bool(a == c))
            elif kind == "foreign":
                a, f = realize(e["o"], k), realize(e["f"])
                e.update(raised=False, eq=bool(a == f) or bool(f == a), ne=bool(a != f) and bool(f != a))
            elif kind == "print":
                try:
                    o = realize(e["o"], k)
                except Exception:
                    if e["o"].get("maybe_illegal"):
                        e["kind"] = "skip"
                        continue
                    raise
                r, s = repr(o), str(o)
                okind = e["o"]["kind"]
                names = e["o"].get("names") if okind == "Point" else (e["o"]["pt"]["names"] if okind == "Located" else [])
                if any((not n.isidentifier()) or keyword.iskeyword(n) for n in names):
                    rt = "skip"
                else:
                    try:
                        back = eval(r, dict(ns))
                        rt = "equal" if (back == o and o == back) else "unequal"
                    except Exception as exc:
                        rt = "error:" + type(exc).__name__
                e.update(raised=False, repr=r, str=s, rt=rt)
            elif kind == "operator":
                a = J.build_tree(e["a"])
                e["a"], e["b"] = with_lits(e["a"]), with_lits(e["b"])
                if e["expect_reject"]:
                    env = dict(ns, a=a, x=S.Variable("x"))
                    bad = e["bad"]
                    sy = {"add": "+", "sub": "-", "mul": "*", "div": "/", "pow": "**", "powk": "**"}[e["sym"]]
                    src = f"a {sy} ({bad})" if e.get("side", "right") == "right" else f"({bad}) {sy} a"
                    res = eval(src, env)
                    e.update(raised=False, result=J.expr_to_E(res) if isinstance(res, S.Expression) else {"op": "Constant", "val": gen.q(0)}, eq_ctor=False)
                else:
                    b = a if e.get("same") else J.build_tree(e["b"])
                    sym = e["sym"]
                    if sym == "neg":
                        res, ctor = -a, S.Negation(a)
                    elif sym == "add":
                        res, ctor = a + b, S.Add(a, b)
                    elif sym == "sub":
                        res, ctor = a - b, S.Minus(a, b)
                    elif sym == "mul":
                        res, ctor = a * b, S.Multiply(a, b)
                    elif sym == "div":
                        res, ctor = a / b, S.Divide(a, b)
                    elif sym == "pow":
                        res, ctor = a ** b, S.Power(a, b)
                    else:
                        kk = e["k"] if e.get("kspell") == "int" else float(e["k"])
                        res, ctor = a ** kk, S.NthPower(a, e["k"])
                    ok = bool(res == ctor) and repr(res) == repr(ctor) and type(res) is type(ctor)
                    if e.get("use_after"):
                        w_ = S.Variable("w")
                        for _ in range(2):
                            try:
                                S.Partial(S.Multiply(res, w_), w_).as_expression()
                                S.Differential(S.Multiply(res, w_), compute_early=True)
                            except Exception:
                                pass
                        fresh_ctor = {"neg": lambda: S.Negation(J.build_tree(e["a"])), "add": lambda: S.Add(J.build_tree(e["a"]), J.build_tree(e["b"])),
                                      "mul": lambda: S.Multiply(J.build_tree(e["a"]), J.build_tree(e["b"])), "powk": lambda: S.NthPower(J.build_tree(e["a"]), e["k"])}[sym]()
                        ok = ok and bool(res == fresh_ctor) and repr(res) == repr(fresh_ctor)
                    e.update(raised=False, result=J.expr_to_E(res), eq_ctor=ok)
            elif kind == "ctor":
                sp0 = e["spell"]
                try:
                    run_ctor(dict(e), S, ns)          # first attempt (outcome judged through the second, identical attempt)
                except Exception:
                    pass
                e["spell"] = sp0
                run_ctor(e, S, ns)
        except OverflowError:
            e["kind"] = "skip"              # exact intermediates leave the floating-point range while an object is being built: excluded
            continue
        except (S.DomainError, S.CoordinateMissing) as exc:
            if kind in ("cmp", "refl", "trans", "foreign", "print") and "Located" in json.dumps(e, default=str):
                e["kind"] = "skip"          # LocatedDifferential cannot be constructed at a point outside the domain: not an event
                continue
            e["raised"] = True
            e["exc"] = type(exc).__name__
            for fld, dv in (("reported_ok", False), ("result", {"op": "Constant", "val": gen.q(0)}), ("eq_ctor", False)):
                e.setdefault(fld, dv)
            if kind == "operator":
                e["a"], e["b"] = with_lits(e["a"]), with_lits(e["b"])
        except Exception as exc:
            e["raised"] = True
            e["exc"] = type(exc).__name__
            for fld, dv in (("eq", False), ("ne", True), ("eq_rev", False), ("hash_eq", False), ("member", False), ("member_other", False), ("repr_a", ""), ("repr_b", ""),
                            ("copy_eq", False), ("copy_hash_eq", False), ("ab", False), ("bc", False), ("ac", False), ("repr", ""), ("str", ""), ("rt", "error"),
                            ("result", {"op": "Constant", "val": gen.q(0)}), ("eq_ctor", False), ("reported_ok", False)):
                e.setdefault(fld, dv)
            if kind == "operator":
                e["a"], e["b"] = with_lits(e["a"]), with_lits(e["b"])
    return ev


def run_ctor(e, S, ns):
    x, y = S.Variable("x"), S.Variable("y")
    env = dict(ns, x=x, y=y)
    ctor = e["ctor"]
    sp = e["spell"]
    if ctor in ("NthPower", "NthRoot"):
        c = e["n"]
        n = {"int": c["n"], "intfloat": float(c["n"]), "negzero": -0.0, "nonintfloat": 2.5, "nonintfloat_neg": -2.5, "inf": math.inf, "neginf": -math.inf, "nan": math.nan,
             "str": "2", "none": None, "near2": 2.0000000001, "complex": 2 + 0j, "list": [2]}[sp]
        inner = x if e["operands_ok"] else 3
        obj = getattr(S, ctor)(inner, n)
        e.update(raised=False, reported_ok=(type(obj.n) is int and obj.n == c["n"]))
    elif ctor in ("Exponential", "Logarithm"):
        inner = x if e["operands_ok"] else "x"
        if e["base"]["c"] == "default":
            obj = getattr(S, ctor)(inner)
            e.update(raised=False, reported_ok=(obj.base == math.e))
        else:
            b = eval(sp, {"math": math})
            obj = getattr(S, ctor)(inner, base=b)
            e.update(raised=False, reported_ok=(obj.base == b and type(obj.base) is type(b)))
    elif ctor == "Variable":
        nm = eval(sp[3:], {}) if sp.startswith("py:") else sp
        obj = S.Variable(nm)
        e.update(raised=False, reported_ok=(obj.name == nm))
    else:
        args = eval("(" + sp + ("," if sp else "") + ")", env) if sp else ()
        obj = getattr(S, ctor)(*args)
        e.update(raised=False, reported_ok=True)
    e["spell"] = repr(sp)[:40]


def run(pid, tier, seed):
    rep = Report(pid, tier, seed)
    ev = [e for e in run_impl(gen_events(pid, tier, seed)) if e["kind"] != "skip"]
    for e in ev:
        e.pop("exc", None) if False else None
    work = tlcrun.scratch_dir("alg")
    try:
        trace = os.path.join(work, "trace.ndjson")
        write_ndjson(trace, ev)
        res = tlcrun.run("AlgebraCases", "AlgebraCases.cfg", trace_file=trace, timeout=1500)
    finally:
        shutil.rmtree(work, ignore_errors=True)
    if res["violated"]:
        raise Machinery("design-level invariant violated in AlgebraCases (the spec's Repr grammar is not injective or Eq is not transitive on a fed case)\n"
                        + "\n".join(l for l in res["out"].splitlines()[-30:] if not l.startswith('"{')))
    verd = {l["i"]: l["v"] for l in res["lines"] if isinstance(l, dict) and "i" in l}
    if len(verd) != len(ev):
        raise Machinery(f"verdict lines {len(verd)} != events {len(ev)}")
    rep.add_tlc(res)
    kinds = {}
    distinct = set()
    for e in ev:
        kinds[e["kind"]] = kinds.get(e["kind"], 0) + 1
        distinct.add(json.dumps({k: v for k, v in e.items() if k in ("kind", "a", "b", "c", "o", "f", "sym", "k", "bad", "side", "ctor", "spell", "operands_ok")}, sort_keys=True, default=str))
        for tg in verd[e["i"]]:
            if tg.startswith("V:"):
                desc = {k: v for k, v in e.items() if k not in ("i",)}
                if tg[2:5] == pid:
                    rep.violation(tg[2:], desc)
                else:
                    rep.other[tg[2:]] = rep.other.get(tg[2:], 0) + 1
    smp = []
    for e in ev[:: max(1, len(ev) // 6)][:6]:
        smp.append({k: (v if not isinstance(v, dict) or "e" not in v else {"kind": v["kind"], "expr": J.show(v["e"])}) for k, v in e.items() if k not in ("i",)})
    rep.cov["samples"] = smp
    rep.assumptions = ["Eq / EqObj / Repr / OperatorResult / Accepts in spec/AlgebraCases.tla are the meaning of the property",
                       "number literals are printed with Python's str(); their spelling is passed to the spec as data (TLC has no floats)"]
    return rep.finish({"evaluations": len(ev), "distinct_nontrivial": len(distinct), "traces_validated_against_impl": len(ev), "events_by_kind": kinds,
                       "rule": "events enumerated by harness/eng_algebra.py: pairs differing by exactly one edit (parameter, leaf, argument order, arity +-1 incl. prefix-related lists, sibling constructor, "
                               "int/float respelling), unrelated pairs, triples, points (permuted / changed / extra coordinate), derivative objects (edit in expression / variable / point / early flag / "
                               "already-computed state), foreign objects; printed forms for all constructors, parameters, names and number spellings; operator and constructor argument classes; "
                               "distinct = distinct event descriptors"}, exhaustive=False)
