"""Engine E-api: the state machine spec/Smoothmath.tla over pools of shared expression objects (C06, C09, C10).
 1. TLC explores the model exhaustively (all histories of any length: VIEW = <<memo, synth>>) and checks
    HistoryFree / RefOutcome / RoutesAgree / AsExprStable / NoPyError / NoSpuriousMissing / OperandsUnchanged;
 2. behaviours are taken OUT of TLC (-simulate with the history variable) and replayed on the real library
    (spec -> code), together with directed A-B-A / route-matrix sequences generated here;
 3. every recorded behaviour goes back into TLC (spec/ApiTrace.tla, code -> spec) which judges each event."""
from __future__ import annotations
import itertools, json, os, random, shutil
import gen, smjson as J, specval as SV, tlcrun, eng_reduce
from common import Report, Machinery, write_ndjson

NUMK = ("q", "f")
KF1_TEXT = "early / switched symbolic route of an expression whose symbolic partial is simplified with the rewrite NthRoot(NthPower(u,m),n) => NthPower(NthRoot(u,n),m), n and m even"


def kf1_pool():
    b = gen.HeapB()
    x = b.var("x")
    sq = b.kun("NthPower", x, 2)
    r2 = b.kun("NthRoot", sq, 2)
    r4 = b.kun("NthRoot", sq, 4)
    s = b.nary("Add", r2, x)
    return {"name": "kf1", "heap": b.h, "roots": [r2, r4, s], "points": [gen.P(x=-3), gen.P(x=2), gen.P(x=0)], "vars": ["x"],
            "nums": [gen.q(-3), gen.q(2)], "switch": [{"r": r2, "v": "x"}, {"r": r4, "v": ""}]}


def random_pools(seed, n):
    """seeded random DAG pools (thorough tier): every new node picks its children among ALL earlier nodes, so sharing is the norm"""
    out = []
    for k in range(n):
        rnd = random.Random(seed * 1000 + k)
        b = gen.HeapB()
        vs = [b.var(nm) for nm in rnd.sample(["x", "y", "w"], rnd.choice((1, 2, 2, 3)))]
        consts = [b.const(c) for c in rnd.sample([0, 1, 2, -1, 3], 2)] + [b.const(1, 2)]
        for _ in range(rnd.randint(5, 9)):
            pick = lambda: rnd.choice(vs) if rnd.random() < 0.4 else rnd.randint(1, len(b.h))
            r = rnd.random()
            if r < 0.25:
                b.nary(rnd.choice(J.NARY), *[pick() for _ in range(rnd.choice((1, 2, 2, 3)))])
            elif r < 0.5:
                b.bin(rnd.choice(J.BIN), pick(), pick())
            elif r < 0.7:
                b.un(rnd.choice(J.UN), pick())
            elif r < 0.88:
                b.kun(rnd.choice(J.KUN), pick(), rnd.choice((1, 2, 3)))
            else:
                op = rnd.choice(J.BUN)
                b.bun(op, pick(), rnd.choice([J.E_, gen.q(2)]))
        comp = [i for i, nd in enumerate(b.h, 1) if nd["op"] not in ("Variable", "Constant")]
        roots = comp[-3:]
        names = sorted({nd["name"] for nd in b.h if nd["op"] == "Variable"})
        pts = [{nm: rnd.choice([gen.q(-1), gen.q(0), gen.q(1), gen.q(2), gen.q(1, 2)]) for nm in names} for _ in range(3)]
        out.append({"name": f"random{k}", "heap": b.h, "roots": roots, "points": pts, "vars": names + ["zz"], "nums": [gen.q(2), gen.q(0)],
                    "switch": [{"r": roots[-1], "v": names[0]}]})
    return out


def all_calls(pool):
    h = pool["heap"]
    roots, vars_, npts, nnums = pool["roots"], pool["vars"], len(pool["points"]), len(pool["nums"])
    one = [r for r in roots if len(gen.heap_vars(h, r)) <= 1]
    C = lambda a, r, v, e, p: {"a": a, "r": r, "v": v, "e": e, "p": p}
    out = []
    for r in roots:
        for p in range(1, npts + 1):
            out.append(C("at", r, "", False, p))
            for v in vars_:
                out.append(C("lcomp", r, v, False, p))
                for e in (False, True):
                    out += [C("pat", r, v, e, p), C("compat", r, v, e, p), C("atcomp", r, v, e, p)]
        for v in vars_:
            for e in (False, True):
                out += [C("pexpr", r, v, e, 0), C("compexpr", r, v, e, 0)]
    for r in one:
        for x in range(1, nnums + 1):
            out.append(C("atnum", r, "", False, x))
            for e in (False, True):
                out.append(C("datnum", r, "", e, x))
        for e in (False, True):
            out.append(C("dexpr", r, "", e, 0))
            for p in range(1, npts + 1):
                out.append(C("dat", r, "", e, p))
    return out


class Session:
    """the pool built on the real library: one object per heap node, long-lived derivative objects"""

    def __init__(self, pool):
        self.S = J.sm()
        self.pool = pool
        self.objs = J.build_heap(pool["heap"])
        self.pts = [J.build_point(p) for p in pool["points"]]
        self.nums = [J.v_to_py(v) for v in pool["nums"]]
        self.live = {}
        self.switch = {(s["r"], s["v"]) for s in pool["switch"]}
        self.returned = []       # expressions handed out by earlier calls (they join the fingerprinted set, C10)

    def _get(self, key, mk):
        if key not in self.live:
            self.live[key] = mk()
        return self.live[key]

    def call(self, c, k=0):
        S = self.S
        a, r, v, e, p = c["a"], self.objs[c["r"] - 1], c["v"], c["e"], c["p"]
        varg = S.Variable(v) if (v and (k % 2 == 0)) else v

        def expr(o):
            self.returned.append((o, eng_reduce.snapshot(o)))
            return {"k": "expr", "e": eng_reduce.snapshot(o)}
        if a == "at":
            return J.outcome_of(lambda: r.at(self.pts[p - 1]))
        if a == "atnum":
            return J.outcome_of(lambda: r.at(self.nums[p - 1]))
        if a == "pat":
            return J.outcome_of(lambda: self._get(("P", c["r"], v, e), lambda: S.Partial(r, varg, compute_early=e)).at(self.pts[p - 1]))
        if a == "pexpr":
            if e or (c["r"], v) in self.switch:
                return J.outcome_of(lambda: self._get(("P", c["r"], v, e), lambda: S.Partial(r, varg, compute_early=e)).as_expression(), conv=expr, timeout=10)
            return J.outcome_of(lambda: S.Partial(r, varg).as_expression(), conv=expr, timeout=10)     # transient object
        if a in ("dat", "datnum", "dexpr"):
            def mk():
                return S.Derivative(r, compute_early=e)
            if a == "dexpr":
                if e or (c["r"], "") in self.switch:
                    return J.outcome_of(lambda: self._get(("D", c["r"], e), mk).as_expression(), conv=expr, timeout=10)
                return J.outcome_of(lambda: mk().as_expression(), conv=expr, timeout=10)
            arg = self.pts[p - 1] if a == "dat" else self.nums[p - 1]
            return J.outcome_of(lambda: self._get(("D", c["r"], e), mk).at(arg))
        if a == "compat":
            return J.outcome_of(lambda: self._get(("F", c["r"], e), lambda: S.Differential(r, compute_early=e)).component_at(varg, self.pts[p - 1]))
        if a == "atcomp":
            return J.outcome_of(lambda: self._get(("F", c["r"], e), lambda: S.Differential(r, compute_early=e)).at(self.pts[p - 1]).component(varg))
        if a == "lcomp":
            return J.outcome_of(lambda: S.LocatedDifferential(r, self.pts[p - 1]).component(varg))
        if a == "compexpr":
            return J.outcome_of(lambda: self._get(("F", c["r"], e), lambda: S.Differential(r, compute_early=e)).component(varg).as_expression(), conv=expr, timeout=10)
        raise ValueError(a)

    def snap(self):
        """the pool's structure re-read from the live objects (children resolved by object identity)"""
        ids = {id(o): i + 1 for i, o in enumerate(self.objs)}
        out = []
        for o in self.objs:
            cn = type(o).__name__
            if cn == "Variable":
                out.append({"op": cn, "name": o.name})
            elif cn == "Constant":
                out.append({"op": cn, "val": J.number_to_v(o.value)})
            elif cn in J.NARY:
                out.append({"op": cn, "args": [ids.get(id(c), 0) for c in o._inners]})
            elif cn in J.BIN:
                out.append({"op": cn, "l": ids.get(id(o._left), 0), "r": ids.get(id(o._right), 0)})
            elif cn in J.UN:
                out.append({"op": cn, "a": ids.get(id(o._inner), 0)})
            elif cn in J.KUN:
                out.append({"op": cn, "a": ids.get(id(o._inner), 0), "k": o.n})
            else:
                out.append({"op": cn, "a": ids.get(id(o._inner), 0), "b": J.number_to_v(o.base)})
        return out

    def fingerprint(self):
        """repr / str / hash of every pool object, structure of every expression handed out so far, the points' items,
        repr of every live derivative object - keyed by identity so that objects created later do not disturb the comparison"""
        fp = {}
        for i, o in enumerate(self.objs):
            fp[("node", i)] = (repr(o), str(o), hash(o))
        for i, (o, frozen) in enumerate(self.returned):
            fp[("returned", i)] = (repr(o), json.dumps(J.expr_to_E(o), sort_keys=True))
        for i, pt in enumerate(self.pts):
            fp[("point", i)] = (repr(pt), tuple(sorted(pt._coordinates.items())))
        for k, d in self.live.items():
            fp[("live", str(k))] = repr(d)
        return fp

    def memo(self):
        return [J.alpha(getattr(o, "_value")) if getattr(o, "_value", None) is not None else {"k": "none"} for o in self.objs]


def replay_behaviour(pool, calls, tid):
    """shared-pool execution + single-call execution on fresh copies"""
    ses = Session(pool)
    frozen = [J.build_tree(J.heap_to_tree(pool["heap"], r)) for r in range(1, len(pool["heap"]) + 1)]
    fp_prev = None
    t = {"tid": tid, "calls": calls, "outs": [], "fresh": [], "bits": [], "snaps": [], "fp": [], "memos": [], "ftrees": []}
    for k, c in enumerate(calls):
        before = ses.fingerprint()
        o = ses.call(c, k)
        after = ses.fingerprint()
        f = Session(pool).call(c, k)
        t["outs"].append(o)
        t["fresh"].append(f)
        t["bits"].append(o.get("repr") == f.get("repr"))
        t["snaps"].append(ses.snap())
        same = all(k in after and after[k] == val for k, val in before.items())
        # pool objects still equal a frozen rebuild, and still evaluate like it at a probe point
        eq = all(a == b and not (a != b) for a, b in zip(ses.objs, frozen))
        t["fp"].append(bool(same and eq))
        t["memos"].append(ses.memo())
    t["ftrees"] = [eng_reduce.snapshot(ses.objs[r - 1]) for r in pool["roots"]]
    # C10, last clause: AFTER the whole behaviour every pool object still evaluates like a never-used copy
    # (probed only at the end, so that the probes do not become part of the history being replayed)
    probe_ok = True
    bad_probe = None
    for i, (o, fz) in enumerate(zip(ses.objs, frozen)):
        if type(o).__name__ in ("Variable", "Constant"):
            continue
        for pi in range(min(3, len(ses.pts))):
            a = J.outcome_of(lambda: o.at(ses.pts[pi]))
            b = J.outcome_of(lambda: fz.at(ses.pts[pi]))
            if "timeout" in (a.get("k"), b.get("k")):
                continue
            if a.get("k") != b.get("k") or a.get("repr") != b.get("repr"):
                probe_ok = False
                bad_probe = {"node": i + 1, "point": pool["points"][pi], "used_object": a, "fresh_copy": b}
    # ... and every live derivative object still answers like a freshly built one of the same kind (up to rounding: a late
    # object that was switched to its symbolic path is compared with a fresh late one)
    S = ses.S
    for key, d in list(ses.live.items()):
        kind, r = key[0], key[1]
        robj = ses.objs[r - 1]
        pts_ok = [pi for pi in range(min(2, len(ses.pts))) if set(gen.heap_vars(pool["heap"], r)) <= set(pool["points"][pi])]
        for pi in pts_ok:
            pt = ses.pts[pi]
            if kind == "P":
                a = J.outcome_of(lambda: d.at(pt)); b = J.outcome_of(lambda: S.Partial(robj, key[2], compute_early=key[3]).at(pt))
            elif kind == "D":
                a = J.outcome_of(lambda: d.at(pt)); b = J.outcome_of(lambda: S.Derivative(robj, compute_early=key[2]).at(pt))
            else:
                vq = pool["vars"][0]
                a = J.outcome_of(lambda: d.at(pt).component(vq)); b = J.outcome_of(lambda: S.Differential(robj, compute_early=key[2]).at(pt).component(vq))
            if "timeout" in (a.get("k"), b.get("k")):
                continue
            same = a.get("k") == b.get("k") and (a["k"] not in NUMK or abs(float(a["repr"]) - float(b["repr"])) <= 1e-9 * max(1.0, abs(float(b["repr"]))))
            if a.get("k") in NUMK and b.get("k") in NUMK:
                same = abs(float(a["repr"]) - float(b["repr"])) <= 1e-9 * max(1.0, abs(float(b["repr"])))
            if not same and not (kind != "F" and not key[-1] and a.get("k") != b.get("k") and False):
                probe_ok = False
                bad_probe = {"live_object": str(key), "point": pool["points"][pi], "used_object": a, "fresh_object": b}
    t["probe_ok"] = probe_ok
    t["bad_probe"] = bad_probe or {"node": 0}
    return t


def directed(pool, rnd, n_aba, tier):
    calls = all_calls(pool)
    seqs = []
    # A-B-A: the same call twice with something else in between (stale caches, remembered points, switched objects)
    for _ in range(n_aba):
        a = rnd.choice(calls)
        b = rnd.choice(calls)
        seqs.append([a, b, a])
        seqs.append([a, b, rnd.choice(calls), a])
    # failing call first, then everything at a good point
    for a in calls:
        if a["a"] in ("at", "pat", "lcomp", "atcomp", "compat", "dat"):
            b = rnd.choice(calls)
            seqs.append([a, b])
    # route matrix (C06): one query asked through every route and object state, before and after as_expression
    for r in pool["roots"]:
        for v in pool["vars"]:
            for p in range(1, len(pool["points"]) + 1):
                grp = [c for c in calls if c["r"] == r and c["a"] in ("pat", "compat", "atcomp", "lcomp") and c["v"] == v and c["p"] == p]
                if len(gen.heap_vars(pool["heap"], r)) <= 1 and (v in gen.heap_vars(pool["heap"], r) or (not gen.heap_vars(pool["heap"], r) and v == pool["vars"][0])):
                    grp += [c for c in calls if c["r"] == r and c["a"] == "dat" and c["p"] == p]
                ex = [c for c in calls if c["r"] == r and c["a"] in ("pexpr", "compexpr") and c["v"] == v]
                ex += [c for c in calls if c["r"] == r and c["a"] == "dexpr"]
                rnd.shuffle(grp)
                seqs.append(grp + ex + grp)
    # several normalisations of the same objects (memo flags accumulate), then queries
    ex = [c for c in calls if c["a"] in ("pexpr", "dexpr", "compexpr")]
    for _ in range(10 if tier == "quick" else 60):
        seqs.append(rnd.sample(ex, min(len(ex), 5)) + rnd.sample(calls, 3))
    return seqs


def model_check(pool, work, cfg="Smoothmath.cfg", expect_violation=False, workers=16):
    pf = os.path.join(work, f"mpool_{pool['name']}.json")
    json.dump(pool, open(pf, "w"))
    return tlcrun.run("SmoothmathMC", cfg.replace("Smoothmath", "SmoothmathMC") if not cfg.startswith("SmoothmathMC") else cfg, env_extra={"POOL_FILE": pf},
                      timeout=1500, expect_violation=expect_violation, workers=workers)


def simulate(pool, work, n, seed):
    pf = os.path.join(work, f"spool_{pool['name']}.json")
    json.dump(pool, open(pf, "w"))
    res = tlcrun.run("Smoothmath", "Smoothmath_sim.cfg", env_extra={"POOL_FILE": pf}, timeout=600, workers=4,
                     extra_args=["-simulate", f"num={n}", "-depth", "8", "-seed", str(seed + 1)], expect_violation=True)
    seqs, seen = [], set()
    for l in res["lines"]:
        if isinstance(l, dict) and "hist" in l:
            k = json.dumps(l["hist"], sort_keys=True)
            if k not in seen:
                seen.add(k)
                seqs.append(l["hist"])
    return seqs, res


REPLAY = None


def replay(pid, path):
    """re-run the recorded history (on the recorded pool) on the current tree; judged by ApiTrace like any other behaviour"""
    global REPLAY
    v = json.load(open(path))["case"]
    REPLAY = (v["pool"], v.get("history") or v.get("calls"))
    return run(pid, "quick", 0)


def run(pid, tier, seed):
    rep = Report(pid, tier, seed)
    rnd = random.Random(5000 + seed)
    quick = tier == "quick"
    pools = gen.api_pools()
    work = tlcrun.scratch_dir("api")
    counts = {"events": 0, "behaviours": 0, "drift": 0, "fl": 0, "fl_decided": 0, "route_pairs": 0, "route_pairs_float": 0,
              "model_states": 0, "model_transitions": 0, "kf1_attributed": 0, "untruthful_flags": 0, "simulated_behaviours": 0}
    samples = []
    try:
        from concurrent.futures import ThreadPoolExecutor
        kp = kf1_pool()
        # 1. the model, exhaustively (all pools in the thorough tier; a rotating subset in the quick tier) - TLC runs in parallel
        chosen = [] if REPLAY is not None else pools if not quick else [pools[(seed + k) % len(pools)] for k in ((0, 2, 5) if pid == "C09" else (1, 3) if pid == "C06" else (4,))]
        trace_pools = pools + ([kp] if pid in ("C06", "C09") else []) + ([] if quick or REPLAY is not None else random_pools(seed, 24))
        sim_pools = [] if REPLAY is not None else [p for p in pools] if not quick else [pools[(seed + k) % len(pools)] for k in (0, 3, 6, 7)]
        covers = {}
        with ThreadPoolExecutor(max_workers=4) as tp:
            # the exhaustive run also EXPORTS a shortest history to every distinct model state (state cover)
            f_model = [(pool, tp.submit(model_check, pool, work, "SmoothmathMC_cover.cfg", False, 6)) for pool in chosen]
            f_kf1 = tp.submit(model_check, kp, work, "Smoothmath_each.cfg", True, 4) if pid in ("C06", "C09") else None
            f_sim = {pool["name"]: tp.submit(simulate, pool, work, 6 if quick else 40, seed) for pool in sim_pools}
            for pool, f in f_model:
                res = f.result()
                if res["violated"]:
                    raise Machinery(f"the state-machine model violates {res['violated']} on pool {pool['name']} (design-level counterexample)\n"
                                    + "\n".join(res["out"].splitlines()[-60:])[:6000])
                rep.add_tlc(res)
                counts["model_states"] += res.get("distinct", 0)
                counts["model_transitions"] += res.get("generated", 0)
                paths = [l["hist"] for l in res["lines"] if isinstance(l, dict) and "hist" in l]
                if len(paths) != res.get("distinct", -1):
                    raise Machinery(f"state cover: {len(paths)} exported histories for {res.get('distinct')} distinct states on pool {pool['name']}")
                covers[pool["name"]] = paths
            if f_kf1 is not None:
                # the named finding as a design-level counterexample: with rule T2 as the code has it the model must FAIL
                counts["kf1_model_counterexample"] = f_kf1.result()["violated"] or "none"
            sims = {k: f.result()[0] for k, f in f_sim.items()}
        # 2. behaviours -> real library (main thread: per-call alarms), 3. -> ApiTrace (TLC runs in parallel)
        jobs = []
        for pool in trace_pools:
            seqs = []
            if pool["name"] in sims:
                sim = sims[pool["name"]]
                rnd.shuffle(sim)
                sim = sim[: (60 if quick else 1500)]
                counts["simulated_behaviours"] += len(sim)
                seqs += sim
            seqs += directed(pool, rnd, 25 if quick else 600, tier)
            if pool["name"] in covers:
                # STATE COVER: every reachable model state is reached on the real library by its shortest history, then continued
                calls_all = all_calls(pool)
                paths = covers[pool["name"]]
                if quick and len(paths) > 350:
                    paths = rnd.sample(paths, 350)
                for h in paths:
                    seqs.append(list(h) + [rnd.choice(calls_all) for _ in range(2 if quick else 4)])
                counts["state_cover_behaviours"] = counts.get("state_cover_behaviours", 0) + len(paths)
            if REPLAY is not None:
                seqs = [REPLAY[1]] if pool["name"] == REPLAY[0] else []
            traces = [replay_behaviour(pool, s, i) for i, s in enumerate(seqs, 1) if s]
            if not traces:
                continue
            tf = os.path.join(work, f"trace_{pool['name']}.ndjson")
            pf = os.path.join(work, f"pool_{pool['name']}.json")
            json.dump(pool, open(pf, "w"))
            write_ndjson(tf, traces)
            jobs.append((pool, traces, tf, pf))
        with ThreadPoolExecutor(max_workers=4) as tp:
            futs = [tp.submit(tlcrun.run, "ApiTrace", "ApiTrace.cfg", tf, 4, 1500, {"POOL_FILE": pf}) for pool, traces, tf, pf in jobs]
            results = [f.result() for f in futs]
        for (pool, traces, tf, pf), res in zip(jobs, results):
            rep.add_tlc(res)
            verd = {l["tid"]: l for l in res["lines"] if isinstance(l, dict) and "tid" in l}
            if len(verd) != len(traces):
                raise Machinery(f"verdict lines {len(verd)} != behaviours {len(traces)} on pool {pool['name']}")
            counts["behaviours"] += len(traces)
            pending = []
            PENDING_INIT = True
            for t in traces:
                vd = verd[t["tid"]]
                v = vd["v"]
                if not vd["probe"]:
                    pending.append(("C10.object_evaluates_differently_from_fresh_copy", {"pool": pool["name"], "heap": pool["heap"], "history": t["calls"], "probe": t["bad_probe"]}, pool, t["calls"][0]))
                if not v["flags"]:
                    counts["untruthful_flags"] += 1
                    if pid == "C09":
                        rep.violation("C09.untruthful_memo_flag_on_shared_object", {"pool": pool["name"], "calls": t["calls"]})
                for j, tags in enumerate(v["ev"]):
                    counts["events"] += 1
                    tags = list(tags)
                    c, o = t["calls"][j], t["outs"][j]
                    if "drift" in tags:
                        counts["drift"] += 1
                    if "fl" in tags:
                        counts["fl"] += 1
                        tags += float_event(pool, c, o, counts)
                    # floats: shared vs fresh on possibly different paths -> tolerance
                    f = t["fresh"][j]
                    if o["k"] in NUMK and f["k"] in NUMK and not t["bits"][j]:
                        if abs(float(o["repr"]) - float(f["repr"])) > 1e-9 * max(1.0, abs(float(f["repr"]))):
                            tags.append("V:C09.differs_from_fresh_copy")
                    for tg in tags:
                        if tg.startswith("V:"):
                            desc = {"pool": pool["name"], "heap": pool["heap"], "history": t["calls"][: j + 1], "event": j + 1, "call": c, "outcome": o, "fresh_copy_outcome": f}
                            pending.append((tg[2:], desc, pool, c))
                # C06 pairs
                c06 = vd["c06"]
                counts["route_pairs"] += c06["pairs"]
                for a, b in c06["bad"]:
                    pending.append(("C06.routes_disagree", {"pool": pool["name"], "heap": pool["heap"], "history": t["calls"], "events": [a, b],
                                                            "calls": [t["calls"][a - 1], t["calls"][b - 1]], "outcomes": [t["outs"][a - 1], t["outs"][b - 1]]}, pool, t["calls"][a - 1]))
                for a, b in c06["num"]:
                    counts["route_pairs_float"] += 1
                    x, y = float(t["outs"][a - 1]["repr"]), float(t["outs"][b - 1]["repr"])
                    if abs(x - y) > 1e-9 * max(1.0, abs(x), abs(y)):
                        pending.append(("C06.routes_disagree", {"pool": pool["name"], "heap": pool["heap"], "history": t["calls"], "events": [a, b],
                                                                "calls": [t["calls"][a - 1], t["calls"][b - 1]], "outcomes": [t["outs"][a - 1], t["outs"][b - 1]]}, pool, t["calls"][a - 1]))
                for a, b in c06["exprbad"]:
                    ca, cb = t["calls"][a - 1], t["calls"][b - 1]
                    # the property's "early and late as_expression() are equal" is about the objects that own both (Partial / Derivative)
                    pending.append(("C06.early_late_as_expression_differ", {"pool": pool["name"], "calls": [ca, cb],
                                                                              "outcomes": [t["outs"][a - 1], t["outs"][b - 1]]}, pool, ca))
            # attribution to the named finding (only the kf1-style expressions can qualify)
            if pending:
                S = J.sm()
                keys, trees_attr = {}, []
                for clause, desc, pl, c in pending:
                    k = (pl["name"], c["r"])
                    if k not in keys:
                        tree = J.heap_to_tree(pl["heap"], c["r"])
                        o = J.build_tree(tree)
                        vs = sorted(J.variables(tree)) or ["x"]
                        keys[k] = []
                        for vv in vs:
                            for mk in (lambda: o._synthetic_partial(vv), lambda: o._synthetic_partials().get(vv, S.Constant(0))):
                                keys[k].append(len(trees_attr))
                                try:
                                    trees_attr.append(J.expr_to_E(mk()))
                                except Exception:
                                    trees_attr.append(J.Const(0))
                attr = eng_reduce.kf1_attribution(trees_attr)
                for clause, desc, pl, c in pending:
                    if any(attr[ix] for ix in keys[(pl["name"], c["r"])]) and clause[:3] in ("C06", "C07", "C09", "C05"):
                        counts["kf1_attributed"] += 1
                        rep.known("KF-1", KF1_TEXT)
                        if clause[:3] == "C09":
                            rep.other["C09_clause_attributed_to_KF-1"] = rep.other.get("C09_clause_attributed_to_KF-1", 0) + 1
                    elif clause[:3] == pid:
                        rep.violation(clause, desc)
                    else:
                        rep.other[clause] = rep.other.get(clause, 0) + 1
            if traces and len(samples) < 6:
                t = traces[len(traces) // 2]
                samples.append({"pool": pool["name"], "history": [f"{c['a']}(r={c['r']},v={c['v']},early={c['e']},p={c['p']})" for c in t["calls"]][:8],
                                "outcomes": [o.get("repr", o["k"]) if o["k"] != "expr" else J.show(o["e"]) for o in t["outs"]][:8],
                                "tlc_tags": verd[t["tid"]]["v"]["ev"][:8]})
    finally:
        shutil.rmtree(work, ignore_errors=True)
    rep.cov["samples"] = samples
    rep.assumptions = ["the model treats simplification as a function of the tree (justified by ReduceCases: results do not depend on truthful flags; flag truthfulness is checked on the live objects here)",
                       "only the long-lived late objects listed in pool.switch are tracked as switchable state; other late as_expression() calls use transient objects in both model and replay",
                       "derivative queries at points that do not supply the expression's variables are not compared (usage error left open by the properties)"]
    return rep.finish({"evaluations": counts["events"], "distinct_nontrivial": counts["behaviours"], "traces_validated_against_impl": counts["behaviours"], **counts,
                       "rule": "model: exhaustive BFS of Smoothmath.tla per pool (VIEW <<memo, synth>>: histories of any length); behaviours: TLC -simulate walks of length 6 with the history variable, "
                               "plus directed A-B-A sequences, failing-call-first sequences, route matrices (every route x early/late x before/after as_expression) and repeated-normalisation sequences; "
                               "each behaviour is executed on a shared pool and call by call on fresh copies; non-trivial = every behaviour has >= 2 calls on shared objects"},
                      exhaustive=False)


def float_event(pool, c, o, counts):
    """reference undecided in exact arithmetic: judge with the float layer"""
    tree = J.heap_to_tree(pool["heap"], c["r"])
    if c["a"] in ("atnum", "datnum"):
        vs = sorted(J.variables(tree))
        p = {(vs[0] if vs else "whatever"): pool["nums"][c["p"] - 1]}
    else:
        p = pool["points"][c["p"] - 1]
    if not set(J.variables(tree)) <= set(p):
        return []
    if c["a"] in ("at", "atnum"):
        res = SV.value(tree, p)
    else:
        vs = sorted(J.variables(tree))
        v = c["v"] if c["a"] not in ("dat", "datnum") else (vs[0] if vs else "whatever")
        res = SV.partial(tree, v, p)
    if res[0] == "illcond":
        return []
    counts["fl_decided"] += 1
    if res[0] == "undef":
        return ["V:C09.differs_from_reference"] if o["k"] in NUMK else []
    if o["k"] == "DomainError":
        return ["V:C09.differs_from_reference"]
    if o["k"] in NUMK and SV.close(float(o["repr"]), res[1], res[2], rel=1e-9) is False:
        return ["V:C09.differs_from_reference"]
    return []
