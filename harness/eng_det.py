"""Engine E-determinism (C18): the same behaviours in separate interpreter processes with different PYTHONHASHSEED,
coordinate order and variable creation order must produce byte-identical canonical traces; one of them is validated by TLC
(spec/ApiTrace.tla) so that "identical" is not "identically wrong"; spec/Determinism.tla gives the design-level argument
(set-iteration order chosen nondeterministically, observables independent of it; two mutant configs must fail)."""
from __future__ import annotations
import json, os, random, shutil, subprocess, sys
import gen, smjson as J, tlcrun, eng_api
from common import Report, Machinery, write_ndjson

HERE = os.path.dirname(os.path.abspath(__file__))


def det_pools():
    pools = []
    b = gen.HeapB()
    vs = {n: b.var(n) for n in ("a", "b", "c", "d", "e")}
    r2 = b.kun("NthRoot", b.const(2), 2)                      # a closed, foldable sub-expression shared by every partial
    prod = b.nary("Multiply", r2, vs["a"], vs["b"], vs["c"])
    ex = b.bun("Exponential", b.bin("Minus", vs["a"], vs["b"]), J.E_)
    z = b.nary("Add", prod, ex, b.nary("Multiply", vs["d"], vs["e"], b.un("Sine", vs["a"])))
    lg = b.bun("Logarithm", b.const(10), J.E_)
    w = b.nary("Add", b.nary("Multiply", lg, vs["e"], vs["d"]), b.bun("Logarithm", vs["c"], gen.q(2)), b.bun("Logarithm", vs["b"], gen.q(2)), b.un("Reciprocal", vs["a"]))
    P = gen.P
    pools.append({"name": "fivevars", "heap": b.h, "roots": [z, w, prod], "vars": ["a", "b", "c", "d", "e"],
                  "points": [P(a=1, b=2, c=3, d=(1, 2), e=-1), P(a=(1, 2), b=(3, 2), c=2, d=3, e=5), P(a=0, b=1, c=1, d=1, e=1), P(a=2, b=-1, c=1, d=1, e=1)],
                  "nums": [gen.q(2)], "switch": [{"r": z, "v": "a"}, {"r": w, "v": "c"}]})
    b = gen.HeapB()
    xs = {n: b.var(n) for n in ("x", "y", "w", "v")}
    m = b.nary("Multiply", b.un("Negation", xs["x"]), b.un("Negation", xs["y"]), xs["w"], xs["v"])
    q = b.bin("Divide", b.nary("Add", xs["x"], xs["y"], xs["w"]), b.nary("Add", b.kun("NthPower", xs["v"], 2), b.const(1)))
    pw = b.bin("Power", b.nary("Add", b.kun("NthPower", xs["x"], 2), b.const(1)), xs["y"])
    pools.append({"name": "fourvars", "heap": b.h, "roots": [m, q, pw], "vars": ["x", "y", "w", "v"],
                  "points": [P(x=2, y=3, w=5, v=7), P(x=-1, y=(1, 2), w=0, v=1), P(x=1, y=2, w=3, v=0)], "nums": [gen.q(1)],
                  "switch": [{"r": q, "v": "x"}, {"r": m, "v": "w"}]})
    # a quotient whose symbolic partials take many rewrite steps, several variables, and a point that lacks a coordinate
    b = gen.HeapB()
    x = b.var("x"); y = b.var("y"); z = b.var("z")
    den = b.bin("Minus", b.nary("Add", b.nary("Multiply", z, z), b.nary("Add", x, y)), b.nary("Add", b.kun("NthRoot", x, 3), b.kun("NthRoot", x, 2)))
    hv = b.bin("Divide", z, den)
    ly = b.nary("Multiply", b.bun("Logarithm", x, J.E_), y)
    lr = b.nary("Multiply", b.bun("Logarithm", x, J.E_), b.un("Reciprocal", y))
    pools.append({"name": "heavy", "heap": b.h, "roots": [hv, ly, lr], "vars": ["x", "y", "z"],
                  "points": [P(x=4, y=1, z=3), P(x=1, y=2, z=(1, 2)), P(x=-1, y=0, z=1), P(x=-1), P(x=2, z=1)], "nums": [gen.q(2)],
                  "switch": [{"r": hv, "v": "x"}, {"r": ly, "v": "y"}]})
    # n-ary nodes with a REPEATED child next to several distinct children that share a variable (seed C18_r3mut1: a walk over
    # set(children) is seed-ordered); 0.1 + 0.2 + 0.3 is the classic order-sensitive float sum, so the numeric reverse sweep shows it
    # bit for bit and the symbolic one in the structure of the accumulated partial
    b = gen.HeapB()
    x = b.var("x"); y = b.var("y")
    t1 = b.nary("Multiply", b.const(1, 10), x); t2 = b.nary("Multiply", b.const(1, 5), x); t3 = b.nary("Multiply", b.const(3, 10), x)
    s = b.nary("Add", y, t1, t2, t3, y)
    u1 = b.nary("Add", b.const(1, 10), y); u2 = b.nary("Add", b.const(1, 5), y); u3 = b.nary("Add", b.const(3, 10), y)
    m = b.nary("Multiply", x, u1, u2, u3, x)
    inner = b.nary("Add", x, b.nary("Multiply", b.const(1, 10), y), b.nary("Multiply", b.const(1, 5), y), b.nary("Multiply", b.const(3, 10), y), x)
    e = b.bun("Exponential", inner, gen.q(2))
    pools.append({"name": "dupterms", "heap": b.h, "roots": [s, m, e], "vars": ["x", "y"],
                  "points": [P(x=1, y=1), P(x=(1, 3), y=(1, 7)), P(x=2, y=-1)], "nums": [gen.q(1)],
                  "switch": [{"r": s, "v": "x"}, {"r": m, "v": "y"}]})
    return pools


def battery(pool, rnd, n):
    calls = eng_api.all_calls(pool)
    seqs = []
    # every early-Differential route for every variable, every as_expression, then random behaviours
    for r in pool["roots"]:
        for p in range(1, len(pool["points"]) + 1):
            seqs.append([c for c in calls if c["r"] == r and c["p"] == p and c["a"] in ("atcomp", "compat", "lcomp", "pat")])
        seqs.append([c for c in calls if c["r"] == r and c["a"] in ("compexpr", "pexpr")])
    for _ in range(n):
        seqs.append([rnd.choice(calls) for _ in range(6)])
    return seqs


def replay(pid, path):
    print("C18 violations are cross-process comparisons: the whole (14 s) quick check is re-run")
    return run(pid, "quick", 0)


def run(pid, tier, seed):
    rep = Report(pid, tier, seed)
    rnd = random.Random(7000 + seed)
    quick = tier == "quick"
    work = tlcrun.scratch_dir("det")
    counts = {"processes": 0, "behaviours": 0, "events": 0, "hash_seeds": [], "model_orders": 0}
    samples = []
    try:
        # design level: the order-insensitivity spec, and its two mutants which must fail
        res = tlcrun.run("Determinism", "Determinism.cfg", timeout=300, workers=4)
        if res["violated"]:
            raise Machinery("Determinism.tla: OrderInsensitive violated in the faithful configuration")
        rep.add_tlc(res)
        counts["model_orders"] = res.get("distinct", 0)
        for mut in ("KeysFromSorted", "FoldOnlyOnce", "ChildrenAsSet"):
            rm = tlcrun.run("Determinism", f"Determinism_mut_{mut}.cfg", timeout=300, workers=4, expect_violation=True)
            if not rm["violated"]:
                raise Machinery(f"vacuity: the mutant configuration {mut} of Determinism.tla does not violate the invariant")
        seeds = list(range(8)) if quick else list(range(64))
        seeds_env = [str(s) for s in seeds] + ([] if quick else ["random", "random"])
        counts["hash_seeds"] = seeds_env
        for pool in det_pools():
            seqs = battery(pool, rnd, 25 if quick else 250)
            job = os.path.join(work, f"job_{pool['name']}.json")
            json.dump({"pool": pool, "seqs": seqs, "full_trace_for": 0}, open(job, "w"))
            procs = []
            for k, hs in enumerate(seeds_env):
                env = dict(os.environ, PYTHONHASHSEED=hs)
                procs.append((hs, k, subprocess.Popen([sys.executable, os.path.join(HERE, "det_worker.py"), job, str(k)], env=env,
                                                     stdout=subprocess.PIPE, stderr=subprocess.PIPE, text=True)))
            outs = []
            for hs, k, p in procs:
                so, se = p.communicate(timeout=1200)
                if p.returncode != 0:
                    raise Machinery(f"determinism worker failed (hash seed {hs}):\n{se[-2000:]}")
                outs.append((hs, k, json.loads(so)))
            counts["processes"] += len(outs)
            ref_hs, ref_k, ref = outs[0]
            full = {row["tid"]: row.pop("full") for row in ref if "full" in row}
            ref_blob = [json.dumps({k: v for k, v in row.items()}, sort_keys=True) for row in ref]
            counts["behaviours"] += len(ref)
            counts["events"] += sum(len(r["outs"]) for r in ref)
            for hs, k, o in outs[1:]:
                for row, rb in zip(o, ref_blob):
                    row.pop("full", None)
                    blob = json.dumps(row, sort_keys=True)
                    if blob != rb:
                        a, b = json.loads(rb), row
                        where = next((j for j, (x, y) in enumerate(zip(a["outs"], b["outs"])) if x != y), None)
                        rep.violation("C18.outcome_depends_on_hash_seed_or_spelling",
                                      {"pool": pool["name"], "history": seqs[row["tid"] - 1], "event": where, "hash_seed_a": ref_hs, "hash_seed_b": hs,
                                       "permutation_b": k, "a": (a["outs"][where] if where is not None else a["ftrees"]), "b": (b["outs"][where] if where is not None else b["ftrees"])})
                        break
            # one of the identical traces is judged by TLC
            traces = [full[t] for t in sorted(full)]
            tf = os.path.join(work, f"trace_{pool['name']}.ndjson")
            pf = os.path.join(work, f"pool_{pool['name']}.json")
            json.dump(pool, open(pf, "w"))
            write_ndjson(tf, traces)
            rt = tlcrun.run("ApiTrace", "ApiTrace.cfg", trace_file=tf, env_extra={"POOL_FILE": pf}, timeout=1500)
            rep.add_tlc(rt)
            verd = {l["tid"]: l for l in rt["lines"] if isinstance(l, dict) and "tid" in l}
            if len(verd) != len(traces):
                raise Machinery(f"verdict lines {len(verd)} != behaviours {len(traces)}")
            for t in traces:
                for j, tags in enumerate(verd[t["tid"]]["v"]["ev"]):
                    for tg in tags:
                        if tg.startswith("V:"):
                            rep.other[tg[2:]] = rep.other.get(tg[2:], 0) + 1
                            if tg.startswith("V:C09.differs_from_reference"):
                                rep.violation("C18.identical_but_wrong", {"pool": pool["name"], "history": t["calls"][: j + 1], "outcome": t["outs"][j]})
            samples.append({"pool": pool["name"], "variables": pool["vars"], "history": seqs[0][:4], "outcomes_hex": [o.get("hex", o.get("s", o["k"])) for o in ref[0]["outs"][:4]],
                            "processes_compared": len(outs)})
    finally:
        shutil.rmtree(work, ignore_errors=True)
    rep.cov["samples"] = samples
    rep.assumptions = ["CPython's PYTHONHASHSEED randomises str hashing (set/dict iteration order of variable names)", "ApiTrace.tla judges one of the identical traces"]
    return rep.finish({"evaluations": counts["events"] * counts["processes"] // max(1, len(det_pools())), "distinct_nontrivial": counts["behaviours"],
                       "traces_validated_against_impl": counts["behaviours"], **counts,
                       "rule": "behaviours over four pools (4-5 variable names; a many-step quotient with an incomplete point; n-ary nodes with a repeated child next to order-sensitive float terms) (n-ary nodes with 3-4 distinct children, shared closed sub-expression, all routes, as_expression, "
                               "early Differential for every variable) executed in separate processes for every hash seed, with permuted coordinate order and variable creation order; "
                               "compared byte for byte (float.hex, structural expressions incl. memo flags); non-trivial = every behaviour touches >= 2 variables"}, exhaustive=False)
