"""Engine E-diff: numeric differentiation routes (C03 forward, C04 reverse, C07 raise-iff-undefined).
spec: spec/DiffCases.tla (+ SmDiffNum operational model, SmSem.DVal reference)."""
from __future__ import annotations
import json, os, random, shutil
import gen, smjson as J, specval as SV, tlcrun
from common import Report, Machinery, write_ndjson
from eng_eval import perturbed_points

NUMK = ("q", "f")
ABSENT = "zz"


def pools():
    """DAGs that reuse the same sub-expression object in several arguments (C04)"""
    X, Y, C = gen.X, gen.Y, gen.C
    w = J.KUn("NthPower", X, 2)
    s = J.Add(X, Y)
    r = J.Un("Reciprocal", X)
    out = [J.Bin("Divide", J.Add(w, C[1]), w), J.Mul(w, w), J.Mul(s, s, s), J.Add(J.Mul(s, X), J.Mul(s, Y)), J.Bin("Minus", J.Mul(r, Y), r),
           J.Bin("Power", J.Add(w, C[1]), s), J.Mul(J.Un("Sine", s), J.Un("Cosine", s)), J.Bin("Divide", s, J.Mul(s, w)),
           J.Add(J.BUn("Logarithm", w, gen.q(2)), J.BUn("Logarithm", w, gen.q(2))), J.Mul(J.KUn("NthRoot", w, 2), J.KUn("NthRoot", w, 2)),
           J.Add(X, X, X), J.Mul(X, X, X), J.Mul(X, Y, X, Y), J.Add(J.Mul(X, Y), J.Mul(Y, X)), J.Bin("Minus", J.Mul(X, X), J.Mul(X, X)),
           J.Bin("Divide", J.Mul(X, Y), J.Mul(Y, X)), J.Mul(C[0], s, w), J.Mul(s, C[0], w), J.Mul(s, w, C[0]), J.Bin("Power", s, s)]
    return out


REPLAY = None


def replay(pid, path):
    global REPLAY
    v = json.load(open(path))["case"]
    REPLAY = [{"tree": v["tree"], "share": bool(v.get("shared")), "pts": [v["point"]]}]
    return run(pid, "quick", 0)


def cases_for(pid, tier, seed):
    if REPLAY is not None:
        return [dict(c) for c in REPLAY]
    rnd = random.Random(2000 + seed)
    G = gen.GQ if tier == "quick" else gen.GT
    cases = []

    def add(t, pts=None, share=False):
        if pts is None:
            pts = gen.grid(J.variables(t), G)
        cases.append({"tree": t, "share": share, "pts": pts})

    quick = tier == "quick"

    def collide(t):
        """the same object queried at points that differ only by -1 / -2 (equal hashes in CPython), in sequence"""
        vs = sorted(J.variables(t))
        if not vs:
            return
        pts = []
        for k, v in enumerate(vs):
            base = {nm: gen.q(2 + i) for i, nm in enumerate(vs)}
            pts += [dict(base, **{v: gen.q(-1)}), dict(base, **{v: gen.q(-2)}), dict(base, **{v: {"k": "q", "n": -1, "d": 1, "py": "float"}})]
        add(t, pts=pts)
    if pid == "C17":
        for t in gen.dedup(gen.d1q() + rnd.sample(gen.over(gen.d1q(), ks=(1, 2, 3, 4)), 500 if quick else 5000) + gen.boundary_universe()[::4]
                           + gen.random_trees(seed * 11 + 9, 200 if quick else 4000, depth=3)):
            vs = sorted(J.variables(t))
            pts = gen.grid(vs, [gen.q(-1), gen.q(0), gen.q(2)])
            add(t, pts=pts + ([{k: gen.q(1) for k in vs[:-1]}] if vs else []))
            if J.size(t) <= 7:
                cases[-1]["early"] = True
    if pid in ("C03", "C04"):
        u2 = gen.over(gen.d1q(), ks=(1, 2, 3, 4, 5, 6),
                      nary3=[(gen.X, gen.Y, gen.C[1]), (gen.C[0], gen.X, gen.Y), (gen.X, gen.X, gen.X), (gen.X, gen.C[0], gen.Y)],
                      nary4=[(gen.X, gen.Y, gen.X, gen.C[2])])
        trees = gen.dedup(gen.d1q() + (rnd.sample(u2, 3500) if quick else rnd.sample(u2, min(len(u2), 9000))) + gen.towers(3 if quick else 4) + gen.products())
        if not quick:
            trees = gen.dedup(trees + gen.d1("thorough"))
        for t in trees:
            add(t)
        for t in pools():
            add(t, share=True)
        for t in rnd.sample(trees, 250 if quick else 2500) + [J.Add(J.Mul(J.KUn("NthPower", gen.X, 2), gen.Y), J.Mul(gen.C[3], gen.X)), J.Mul(gen.X, J.KUn("NthPower", gen.Y, 3)),
                                                              J.BUn("Logarithm", J.Add(gen.X, gen.C[3]), gen.E_)]:
            collide(t)
        W = J.Var("whatever")
        for t in (J.Add(J.KUn("NthPower", W, 2), J.Mul(gen.C[2], W)), J.Un("Sine", W), J.Mul(W, W, W), J.Bin("Divide", gen.C[1], W)):
            add(t, pts=gen.grid(["whatever"], [gen.q(0), gen.q(3), gen.q(-1)]))
        for t in rnd.sample(trees, 400 if quick else 3000):
            if J.size(t) >= 4:
                add(t, share=True)
        for t in gen.random_trees(seed * 11 + 1, 800 if quick else 8000, depth=3):
            add(t)
        for t in gen.random_trees(seed * 11 + 5, 150 if quick else 3000, depth=4, names=("x", "y", "z")):
            add(t, pts=rnd.sample(gen.grid(J.variables(t), G), min(6, len(G) ** len(J.variables(t)))))
        nfl = 700 if quick else 12000
        for t in rnd.sample(trees, min(len(trees), nfl)):
            if J.variables(t):
                add(t, pts=perturbed_points(J.variables(t), rnd, 2))
    if pid == "C14":
        names = ["self", "é", "1x", "class", "_", "whatever", "x1", "Δt"]
        for nm in names:
            V = J.Var(nm)
            for t in (V, J.KUn("NthPower", V, 2), J.Mul(V, V), J.Add(V, gen.Y), J.Bin("Divide", gen.C[1], V), J.Mul(V, gen.Y, V)):
                add(t, pts=gen.grid(J.variables(t), [gen.q(0), gen.q(2)]))
        trees = gen.dedup(gen.d1q() + rnd.sample(gen.over(gen.d1q(), ks=(1, 2, 3)), 300 if quick else 3000) + gen.random_trees(seed * 11 + 7, 150 if quick else 3000, depth=3, names=("x", "y", "z")))
        for t in trees:
            vs = sorted(J.variables(t))
            base = {nm: rnd.choice(G) for nm in vs}
            pts = [dict(base), dict(base, u=gen.q(1)), dict(base, zz=gen.q(5))]
            for drop in vs:
                pts.append({k: v for k, v in base.items() if k != drop})
            add(t, pts=pts)
    if pid == "C07":
        bu = gen.boundary_universe()
        gpts = [gen.q(-1), gen.q(0), gen.q(1, 2), gen.q(1), gen.q(2)] if quick else gen.GT
        for n_, t in enumerate(bu):
            add(t, pts=gen.grid(J.variables(t), gpts))
            if J.size(t) <= 9 and (not quick or n_ % 4 == 0):
                cases[-1]["early"] = True
        for t in rnd.sample(bu, 200 if quick else 1500) + [J.BUn("Logarithm", J.Add(gen.X, gen.C[2]), gen.E_), J.Un("Reciprocal", J.Add(gen.X, gen.C[2]))]:
            collide(t)
            cases[-1]["early"] = J.size(t) <= 9
        for t in rnd.sample(bu, 300 if quick else len(bu)):
            if J.size(t) >= 4:
                add(t, share=True, pts=gen.grid(J.variables(t), gpts))
        # the canonical witnesses of the known finding KF-1 (early route raises where the expression is defined)
        for t in (J.KUn("NthRoot", J.KUn("NthPower", gen.X, 2), 4), J.KUn("NthRoot", J.KUn("NthPower", gen.X, 2), 2), J.Add(J.KUn("NthRoot", J.KUn("NthPower", gen.X, 4), 2), gen.Y)):
            add(t, pts=gen.grid(J.variables(t), [gen.q(-3), gen.q(2)]))
            cases[-1]["early"] = True
        u2 = gen.over(gen.d1q(), ks=(1, 2, 3, 4), bases=[gen.E_, gen.q(2)], exp_bases=[gen.E_, gen.q(1)])
        for t in (rnd.sample(u2, 1200) if quick else rnd.sample(u2, min(len(u2), 6000))):
            add(t)
        for t in gen.random_trees(seed * 11 + 3, 500 if quick else 6000, depth=3, consts=[-1, 0, 1, 2, gen.H]):
            add(t)
    return cases


def run_impl(cases):
    S = J.sm()
    rows = []
    for i, c in enumerate(cases, 1):
        c["pts"] = [p for p in c["pts"] if not (set(J.variables(c["tree"])) <= set(p) and SV.out_of_range(c["tree"], p))]
        heap = J.tree_to_heap(c["tree"], share=c["share"])
        objs = J.build_heap(heap)
        root = objs[-1]
        vs = sorted(J.variables(c["tree"]))
        qv = vs + [ABSENT]
        dvar = vs[0] if len(vs) == 1 else (ABSENT if not vs else "")
        dctor = J.outcome_of(lambda: S.Derivative(root), conv=lambda o: {"k": "ok"})
        row = {"i": i, "h": heap, "pts": c["pts"], "q": qv, "dvar": dvar, "outs": [], "svs": [], "dv": [], "at": [],
               "dctor": "ok" if dctor.get("k") == "ok" else "raised"}
        varobj = {v: S.Variable(v) for v in qv}
        # long-lived late objects, reused for every point of the case (and queried twice per point, see below)
        lived = {v: J.outcome_of(lambda: S.Partial(root, v), conv=lambda o: o) for v in qv}
        lived_d = J.outcome_of(lambda: S.Derivative(root), conv=lambda o: o) if len(vs) <= 1 else None
        # EARLY long-lived Partials (symbolic path) - only where the check asks for them (C07: early or late)
        early = {v: J.outcome_of(lambda: S.Partial(root, v, compute_early=True), conv=lambda o: o, timeout=10) for v in qv} if c.get("early") else {}
        early_diff = J.outcome_of(lambda: S.Differential(root, compute_early=True), conv=lambda o: o, timeout=10) if c.get("early") else None
        lived_diff = S.Differential(root)          # ONE late Differential for all points of the case
        # another root that SHARES a composite sub-expression object of this one (the deepest-built composite below the root, else the root)
        comp = [o for n, o in zip(heap[:-1], objs[:-1]) if n["op"] not in ("Variable", "Constant")]
        shared_root = J.outcome_of(lambda: S.Negation(comp[-1] if comp else root), conv=lambda o: o)
        if isinstance(shared_root, dict):
            shared_root = None
        allpts = []
        for p in c["pts"]:
            try:
                allpts.append(J.build_point(p))
            except Exception:
                allpts.append(None)
        for j, p in enumerate(c["pts"]):
            try:
                pt = J.build_point(p)
            except Exception as exc:       # a legal coordinate name the Point constructor cannot take: every route fails with it
                bad = {"k": "PyError", "t": type(exc).__name__}
                row["at"].append(bad)
                row["outs"].append([{"pa": bad, "pa2": bad, "pe": {"k": "na"}, "ld": bad, "ld2": bad, "da": bad, "da2": bad, "dae": {"k": "na"}} for _ in qv])
                row["svs"].append([{"k": "ill"} for _ in qv])
                row["dv"].append(bad if len(vs) <= 1 else {"k": "na"})
                continue
            # the EARLY long-lived objects are queried FIRST: whatever the previous point left in the caches is still there
            pe_now = {v: ({"k": "na"} if early.get(v) is None else (early[v] if isinstance(early[v], dict) else J.outcome_of(lambda: early[v].at(pt)))) for v in qv}
            dae_obj = None if early_diff is None else (early_diff if isinstance(early_diff, dict) else J.outcome_of(lambda: early_diff.at(pt), conv=lambda o: o))
            row["at"].append(J.outcome_of(lambda: root.at(pt)))
            # the long-lived late Differential: first ask ONE component through component_at, then at(p) for all of them
            J.outcome_of(lambda: lived_diff.component_at(qv[j % len(qv)], pt))
            da2_obj = J.outcome_of(lambda: lived_diff.at(pt), conv=lambda o: o)
            per_v, svs = [], []
            # reverse mode: ONE object answers for all variables
            ld_err = None
            try:
                ld_obj = None
                r = J.outcome_of(lambda: S.LocatedDifferential(root, pt), conv=lambda o: o)
                if isinstance(r, dict):
                    ld_err = r
                else:
                    ld_obj = r
            except Exception as exc:  # pragma: no cover
                ld_err = {"k": "PyError", "t": type(exc).__name__}
            # reverse mode A-B-A across a SHARED sub-expression object (seed C04_r3mut1): the gradient at pt, then ANOTHER root built on
            # one of this root's composite sub-expression objects is evaluated at another point, then the gradient at pt once more
            ld2_err, ld2_obj = None, None
            if shared_root is not None and allpts[(j + 1) % len(allpts)] is not None:
                J.outcome_of(lambda: shared_root.at(allpts[(j + 1) % len(allpts)]))
            r = J.outcome_of(lambda: S.LocatedDifferential(root, pt), conv=lambda o: o)
            if isinstance(r, dict):
                ld2_err = r
            else:
                ld2_obj = r
            da_err, da_obj = None, None
            r = J.outcome_of(lambda: S.Differential(root).at(pt), conv=lambda o: o)
            if isinstance(r, dict):
                da_err = r
            else:
                da_obj = r
            for t, v in enumerate(qv):
                varg = varobj[v] if (j + t) % 2 == 0 else v
                # A-B-A on a long-lived object: query, evaluate the expression at ANOTHER point, query again
                other = allpts[(j + 1) % len(allpts)]
                lp = lived[v]
                if isinstance(lp, dict):
                    pa2 = lp
                else:
                    J.outcome_of(lambda: lp.at(pt))
                    if other is not None:
                        J.outcome_of(lambda: root.at(other))
                    pa2 = J.outcome_of(lambda: lp.at(pt))
                pe = pe_now[v]
                da2 = da2_obj if isinstance(da2_obj, dict) else J.outcome_of(lambda: da2_obj.component(varg))
                dae = {"k": "na"} if dae_obj is None else (dae_obj if isinstance(dae_obj, dict) else J.outcome_of(lambda: dae_obj.component(varg)))
                o = {"pa": J.outcome_of(lambda: S.Partial(root, varg).at(pt)), "pa2": pa2, "pe": pe, "da2": da2, "dae": dae,
                     "ld": ld_err if ld_err else J.outcome_of(lambda: ld_obj.component(varg)),
                     "ld2": ld2_err if ld2_err else J.outcome_of(lambda: ld2_obj.component(varg)),
                     "da": da_err if da_err else J.outcome_of(lambda: da_obj.component(varg))}
                per_v.append(o)
                if set(vs) <= set(p):
                    svs.append(SV.sv_record(SV.partial(c["tree"], v, p)))
                else:
                    svs.append({"k": "ill"})
            row["outs"].append(per_v)
            row["svs"].append(svs)
            if len(vs) <= 1:
                if j % 2 == 1 and len(p) == 1 and vs and list(p)[0] == vs[0] and p[vs[0]]["k"] == "q":
                    num = J.v_to_py(p[vs[0]])
                    row["dv"].append(J.outcome_of(lambda: S.Derivative(root).at(num)))
                else:
                    row["dv"].append(J.outcome_of(lambda: S.Derivative(root).at(pt)))
            else:
                row["dv"].append({"k": "na"})
        rows.append(row)
    return rows


def float_layer(case, p, v, o, prop):
    res = SV.partial(case["tree"], v, p)
    if res[0] == "illcond":
        return ["skip_illcond"]
    if res[0] == "undef":
        return ["V:C07.number_where_undefined"] if o["k"] in NUMK else []
    if o["k"] == "DomainError":
        return ["V:C07.raised_where_defined"]
    if o["k"] in NUMK:
        ok = SV.close(float(o["repr"]), res[1], res[2], rel=1e-10)
        if ok is None:
            return ["skip_illcond"]
        return [] if ok else [f"V:{prop}.value_float"]
    return []


def run(pid, tier, seed):
    rep = Report(pid, tier, seed)
    cov = collect(rep, pid, tier, seed)
    return rep.finish(cov, exhaustive=False)


def collect(rep, pid, tier, seed):
    """runs the engine and records violations of `pid` in rep; returns the coverage dictionary"""
    cases = cases_for(pid, tier, seed)
    rows = run_impl(cases)
    lines, results = tlcrun.run_chunked("DiffCases", "DiffCases.cfg", rows, chunk=8000, timeout=3000)
    for res in results:
        if res["violated"]:
            raise Machinery(f"design-level invariant {res['violated']} violated in DiffCases\n" + "\n".join(l for l in res["out"].splitlines()[-30:] if not l.startswith('"{')))
    verd = {l["i"]: l["v"] for l in lines if isinstance(l, dict) and "i" in l}
    if len(verd) != len(rows):
        raise Machinery(f"verdict lines {len(verd)} != events {len(rows)}")
    for res in results:
        rep.add_tlc(res)
    counts = {"ok": 0, "fl": 0, "drift": 0, "skip_illcond": 0, "fl_decided": 0, "sv_crosschecked": 0, "skipped_out_of_range": 0}
    nontrivial = set()
    nq = 0
    early_pending = []
    for case, row in zip(cases, rows):
        for j, per_v in enumerate(verd[row["i"]]):
            p = case["pts"][j]
            for t, tags in enumerate(per_v):
                v = row["q"][t]
                tags = list(tags)
                if "SV:mismatch" in tags:
                    raise Machinery(f"specval disagrees with the spec: d/d{v} {J.show(case['tree'])} at {p}")
                if "sv" in tags:
                    counts["sv_crosschecked"] += 1
                extra = []
                for tg in tags:
                    if tg.startswith("fl@"):
                        rt = tg[3:]
                        counts["fl"] += 1
                        o = row["dv"][j] if rt == "dv" else row["outs"][j][t][rt]
                        ex = float_layer(case, p, v, o, "C03" if rt in ("pa", "pa2", "dv") else "C06" if rt in ("pe", "dae") else "C04")
                        if "skip_illcond" in ex:
                            counts["skip_illcond"] += 1
                        else:
                            counts["fl_decided"] += 1
                        extra += [e + "@" + rt for e in ex if e.startswith("V:")]
                tags += extra
                if any(tg.startswith("V:C17") for tg in tags) and set(J.variables(case["tree"])) <= set(p) \
                        and SV.partial(case["tree"], v, p)[0] == "illcond":
                    tags = [tg for tg in tags if not tg.startswith("V:C17")]
                    counts["skipped_out_of_range"] += 1
                counts["drift"] += sum(1 for tg in tags if tg.startswith("drift"))
                vt = [tg for tg in tags if tg.startswith("V:")]
                nq += 1
                if not vt:
                    counts["ok"] += 1
                for tg in vt:
                    clause, rt = tg[2:].split("@")
                    prop = clause[:3]
                    desc = {"expr": J.show(case["tree"]), "tree": case["tree"], "shared": case["share"], "point": p, "variable": v,
                            "route": rt, "outcome": row["dv"][j] if rt == "dv" else row["outs"][j][t][rt]}
                    if rt in ("pe", "dae"):
                        early_pending.append((clause, desc, case["tree"], v, rt))
                    elif prop == pid:
                        rep.violation(clause + "@" + rt, desc)
                    else:
                        rep.other[clause] = rep.other.get(clause, 0) + 1
                if J.size(case["tree"]) >= 2:
                    nontrivial.add((J.key(case["tree"]), json.dumps(p, sort_keys=True), v))
    if early_pending:
        # violations on the EARLY (symbolic) route: attributable to the named finding KF-1?
        import eng_reduce
        S = J.sm()
        keys, trees_attr = {}, []
        for clause, desc, tree, v, rt in early_pending:
            k = (J.key(tree), v, rt)
            if k not in keys:
                keys[k] = len(trees_attr)
                try:
                    o_ = J.build_tree(tree)
                    if rt == "pe":
                        trees_attr.append(J.expr_to_E(o_._synthetic_partial(v)))
                    else:      # early Differential.at evaluates EVERY stored partial: any of them may carry the finding
                        sp = o_._synthetic_partials()
                        trees_attr.append(J.expr_to_E(S.Add(*sp.values())) if sp else J.Const(0))
                except Exception:
                    trees_attr.append(J.Const(0))       # the symbolic partial cannot even be built: certainly not the named finding
        attr = eng_reduce.kf1_attribution(trees_attr)
        for clause, desc, tree, v, rt in early_pending:
            if attr[keys[(J.key(tree), v, rt)]]:
                rep.known("KF-1", "early Partial.at of an expression whose symbolic partial is simplified with the rewrite NthRoot(NthPower(u,m),n) => NthPower(NthRoot(u,n),m), n and m even")
            elif clause[:3] == pid:
                rep.violation(clause + "@" + rt, desc)
            else:
                rep.other[clause] = rep.other.get(clause, 0) + 1
    smp = []
    for c, r in list(zip(cases, rows))[:: max(1, len(cases) // 6)][:6]:
        if c["pts"]:
            smp.append({"expr": J.show(c["tree"]), "shared_nodes": c["share"], "point": c["pts"][0], "variables_queried": r["q"],
                        "implementation_outcomes": r["outs"][0], "tlc_verdict": verd[r["i"]][0]})
    rep.cov["samples"] = smp
    rep.assumptions = ["reference semantics SmSem.DVal (dual numbers), cross-checked against the derivative term Deriv by TLC (OracleOK in EvalCases)",
                       "irrational cases are judged by harness/specval.py with tolerance 1e-10*max(1,largest intermediate); it is cross-checked by TLC on every exact case",
                       "IEEE-754 double arithmetic and libm of this platform"]
    return ({"evaluations": nq * 3, "queries": nq, "distinct_nontrivial": len(nontrivial), "traces_validated_against_impl": len(rows),
                       "cases": len(rows), **counts,
                       "rule": "cases = (expression heap, points) x every variable (occurring, and the absent name 'zz'; given alternately as Variable and str) x routes "
                               "{late Partial.at, Derivative.at (Point / bare number), LocatedDifferential.component, Differential.at.component}; universes: U2 over D1q, "
                               "chain-rule towers, products/sums of 3-4 factors, DAG pools with shared nodes, boundary universe (C07), seeded random depth 3-4; "
                               "distinct = (tree, point, variable); non-trivial = tree has >= 2 nodes"})
