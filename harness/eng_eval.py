"""Engine E-eval: evaluation through Expression.at  (C01, C02, C14-coordinates, C17).
spec: spec/EvalCases.tla (+ SmEval operational model, SmSem reference semantics)."""
from __future__ import annotations
import itertools, json, math, os, random, shutil
import gen, smjson as J, specval as SV, tlcrun
from common import Report, Machinery, write_ndjson

NUMK = ("q", "f")


def float_v(x):
    return {"k": "f", "repr": repr(float(x))}


def extreme_points(names, rnd, n):
    """coordinates at the edges of the double range (subnormal, tiny, huge) - most combinations overflow and are dropped by the
    pre-screen; the ones whose exact intermediates stay in range must still give finite, correct results"""
    vals = [5e-324, 1e-310, 2.0 ** -60, 3 * 2.0 ** -60, 1e-18, 1e-9, 1e9, 1e18, 1e150, -5e-324, -(2.0 ** -60), -1e-9]
    return [{nm: float_v(rnd.choice(vals)) for nm in sorted(names)} for _ in range(n)]


def near_one_bases():
    return [{"k": "f", "repr": "1.0000000001"}, {"k": "f", "repr": repr(math.nextafter(1.0, 2.0))}, {"k": "f", "repr": "0.9999999999"}, {"k": "f", "repr": "1.001"}]


def perturbed_points(names, rnd, n):
    """grid values +- tiny relative perturbations, and arbitrary floats (float layer only)"""
    base = [-32.0, -8.0, -2.0, -1.0, -0.5, 0.5, 1.0, 2.0, 3.0, 4.0, 9.0, 16.0, 27.0, 81.0, 243.0, 1024.0]
    pts = []
    for _ in range(n):
        p = {}
        for nm in sorted(names):
            r = rnd.random()
            if r < 0.5:
                b = rnd.choice(base)
                p[nm] = float_v(b * (1 + rnd.choice((-1, 1)) * 10 ** rnd.uniform(-9.5, -6)))
            elif r < 0.8:
                p[nm] = float_v(rnd.uniform(-4, 4))
            else:
                p[nm] = float_v(rnd.choice((-1, 1)) * 10 ** rnd.uniform(-3, 3))
        pts.append(p)
    return pts


def illegal_probes(rep):
    """objects that must not be constructible: if one is accepted all the same, every route on it must still end in a number or
    in one of the library's own errors (no TLC model exists for ill-formed objects; judged by the plain rule of C17)"""
    S = J.sm()
    x = S.Variable("x")
    probes = {"Logarithm(x, base=0)": lambda: S.Logarithm(x, base=0), "Logarithm(x, base=1)": lambda: S.Logarithm(x, base=1),
              "Logarithm(x, base=-2)": lambda: S.Logarithm(x, base=-2), "Exponential(x, base=0)": lambda: S.Exponential(x, base=0),
              "Exponential(x, base=-1)": lambda: S.Exponential(x, base=-1), "NthRoot(x, 0)": lambda: S.NthRoot(x, 0), "NthPower(x, 0)": lambda: S.NthPower(x, 0),
              "NthPower(x, -2.0)": lambda: S.NthPower(x, -2.0), "NthRoot(x, -1)": lambda: S.NthRoot(x, -1), "NthPower(x, 2.5)": lambda: S.NthPower(x, 2.5)}
    built = 0
    for name, mk in probes.items():
        try:
            o = mk()
        except Exception:
            continue
        built += 1
        for wrap in (lambda e: e, lambda e: S.Add(e, S.Constant(1)), lambda e: S.Negation(e)):
            e = wrap(o)
            for val in (2, 0.5, -1, 0):
                pt = S.Point(x=val)
                for route, fn in (("at", lambda: e.at(pt)), ("Partial.at", lambda: S.Partial(e, "x").at(pt)), ("Partial.at(other variable)", lambda: S.Partial(e, "zz").at(pt)),
                                  ("LocatedDifferential", lambda: S.LocatedDifferential(e, pt).component("x")), ("early Partial.at", lambda: S.Partial(e, x, compute_early=True).at(pt)),
                                  ("as_expression", lambda: S.Partial(e, x).as_expression() and 0)):
                    out = J.outcome_of(fn)
                    if out["k"] in ("PyError", "bad"):
                        rep.violation("C17.foreign_" + out["t"], {"expr": name, "note": "this object should have been rejected at construction", "route": route, "x": val, "outcome": out})
    return {"probes": len(probes), "unexpectedly_constructible": built}


def names_cases(add):
    """every legal variable name is a legal coordinate name (Point(**{...}), bare number, inside larger trees)"""
    for nm in ["self", "é", "1x", "class", "_", "whatever", "x1", "Δt", "None", "cls", "kwargs", "point"]:
        V = J.Var(nm)
        for t in (V, J.KUn("NthPower", V, 2), J.Add(V, gen.Y), J.Mul(V, J.Var("self")), J.Un("Reciprocal", V)):
            vs = sorted(J.variables(t))
            add(t, pts=gen.grid(vs, [gen.q(0), gen.q(3)]) + [{k: gen.q(2) for k in vs[:-1]}])
            add(t, pts=[gen.q(3), gen.q(0)], mode="number")


REPLAY = None      # set by replay(): the single case of a recorded violation


def replay(pid, path):
    """re-execute exactly the recorded case on the current tree and re-judge it with TLC"""
    global REPLAY
    v = json.load(open(path))["case"]
    REPLAY = [{"tree": v["tree"], "share": bool(v.get("shared")), "mode": v.get("mode", "point"), "pts": [v["point"]]}]
    return run(pid, "quick", 0)


def edge_cases(add, rnd, tier):
    """quotients / reciprocals / roots / logarithms at the edges of the double range, logarithm bases next to one"""
    X, Y, C = gen.X, gen.Y, gen.C
    shapes = [J.Bin("Divide", X, Y), J.Bin("Divide", C[1], X), J.Bin("Divide", C[1], J.KUn("NthPower", X, 2)), J.Un("Reciprocal", X), J.Mul(X, J.Un("Reciprocal", Y)),
              J.Bin("Divide", J.Add(X, Y), J.Bin("Minus", X, Y)), J.KUn("NthRoot", X, 2), J.KUn("NthRoot", J.Bin("Divide", X, Y), 3), J.Bin("Divide", J.Const(1, 100000), Y),
              J.BUn("Logarithm", X, gen.E_), J.Bin("Power", X, C[H_]), J.Mul(X, Y), J.Add(X, J.Bin("Divide", C[0], Y))]
    tiny = [5e-324, 1e-310, 2.0 ** -60, 1e-9]
    for t in shapes:
        add(t, pts=extreme_points(J.variables(t), rnd, 10 if tier == "quick" else 60))
        vs = sorted(J.variables(t))
        add(t, pts=[dict(zip(vs, [float_v(a) for a in combo])) for combo in itertools.product(tiny, repeat=len(vs))])
    for b in near_one_bases():
        for t in (J.BUn("Logarithm", X, b), J.Mul(C[0], J.BUn("Logarithm", X, b)), J.BUn("Exponential", X, b), J.Add(J.BUn("Logarithm", J.Add(X, Y), b), C[1])):
            add(t, pts=gen.grid(J.variables(t), [gen.q(-1), gen.q(0), gen.q(1, 2), gen.q(2)]))


H_ = (1, 2)


def cases_for(pid, tier, seed):
    """list of cases: dict(tree, share, mode, pts)"""
    if REPLAY is not None:
        return [dict(c) for c in REPLAY]
    rnd = random.Random(1000 + seed)
    G = gen.GQ if tier == "quick" else gen.GT
    cases = []

    def add(t, pts=None, share=False, mode="point"):
        if pts is None:
            pts = gen.grid(J.variables(t), G)
        cases.append({"tree": t, "share": share, "mode": mode, "pts": pts})

    if pid in ("C01", "C17"):
        base = gen.d1q() if tier == "quick" else gen.d1("thorough")
        u2 = gen.over(gen.d1q(), ks=(1, 2, 3, 4, 5, 6),
                      nary3=[(gen.X, gen.Y, gen.C[1]), (gen.C[0], gen.X, gen.Y), (gen.X, gen.X, gen.X), (gen.X, gen.Add(), gen.Mul())],
                      nary4=[(gen.X, gen.Y, gen.X, gen.C[2]), (gen.Mul(), gen.Add(), gen.X, gen.C[0])])
        if tier == "thorough":
            u2 += gen.over(base, ks=(2, 3), bases=[gen.E_, gen.q(2)], exp_bases=[gen.q(2), gen.q(1, 2)],
                           pairs=[(a, b) for a in base for b in rnd.sample(base, 12)])
        trees = gen.dedup(base + u2)
        if pid == "C17":
            trees = rnd.sample(trees, min(len(trees), 2500 if tier == "quick" else 12000)) + gen.boundary_universe()[::3]
        for t in trees:
            add(t)
        # DAG versions (one object per distinct sub-tree) of a sample
        for t in rnd.sample(trees, min(len(trees), 600 if tier == "quick" else 4000)):
            if J.size(t) >= 4:
                add(t, share=True)
        # depth-3 random trees
        for t in gen.random_trees(seed * 7 + 1, 1500 if tier == "quick" else 40000, depth=3):
            add(t)
        # bare-number entry for trees with at most one variable
        nums = [gen.q(-1), gen.q(0), gen.q(1, 2), gen.q(2), gen.q(3)]
        for t in rnd.sample(trees, min(len(trees), 800 if tier == "quick" else 5000)):
            if len(J.variables(t)) <= 1:
                add(t, pts=nums, mode="number")
        # float points (float layer): perturbed grid values and arbitrary floats
        nfl = 1500 if tier == "quick" else 20000
        for t in rnd.sample(trees, min(len(trees), nfl)) + gen.random_trees(seed * 7 + 2, nfl // 3, depth=3):
            if J.variables(t):
                add(t, pts=perturbed_points(J.variables(t), rnd, 3))
        edge_cases(add, rnd, tier)
    if pid == "C02":
        edge_cases(add, rnd, tier)
        bu = gen.boundary_universe()
        for t in bu:
            add(t, pts=gen.grid(J.variables(t), gen.GT if tier == "thorough" else [gen.q(-1), gen.q(0), gen.q(1, 2), gen.q(1), gen.q(2)]))
        for t in rnd.sample(bu, 500 if tier == "quick" else len(bu)):
            if J.size(t) >= 4:
                add(t, share=True)
        u2 = gen.over(gen.d1q(), ks=(1, 2, 3, 4), bases=[gen.E_, gen.q(2)], exp_bases=[gen.E_, gen.q(1)])
        for t in (rnd.sample(u2, 3000) if tier == "quick" else u2):
            add(t)
        for t in gen.random_trees(seed * 7 + 3, 1500 if tier == "quick" else 40000, depth=3, consts=[-1, 0, 1, 2, gen.H]):
            add(t)
    if pid == "C14":
        trees = gen.dedup(gen.d1q() + rnd.sample(gen.over(gen.d1q(), ks=(1, 2, 3)), 1200 if tier == "quick" else 6000)
                          + gen.random_trees(seed * 7 + 4, 600 if tier == "quick" else 8000, depth=3, names=("x", "y", "z")))
        for t in trees:
            vs = sorted(J.variables(t))
            pts = []
            for r in range(len(vs) + 1):
                for sub in itertools.combinations(vs, r):
                    for extra in ((), ("u",), ("w", "whatever")):
                        names = list(sub) + list(extra)
                        pts.append({nm: rnd.choice(G) for nm in names})
            add(t, pts=pts)
            add(t, pts=[gen.q(1), gen.q(0), gen.q(-2)], mode="number")
        names_cases(add)
        # sub-expression objects used on their own AFTER larger expressions were built on top of them (shared objects)
        for t in rnd.sample(trees, 300 if tier == "quick" else 3000):
            if J.size(t) >= 3:
                cases.append({"tree": t, "share": True, "mode": "number", "pts": [gen.q(2), gen.q(0)], "subnodes": True})
    if pid == "C17":
        names_cases(add)
        for c in list(cases)[:1500]:
            if c["mode"] == "point" and J.variables(c["tree"]):
                vs = sorted(J.variables(c["tree"]))
                add(c["tree"], pts=[{nm: rnd.choice(G) for nm in vs[:-1]}, {nm: rnd.choice(G) for nm in vs + ["u"]}])
    return cases


def run_impl(cases):
    """execute every case on the real library; returns trace rows"""
    rows = []
    extra_rows = []
    for i, c in enumerate(cases, 1):
        # pre-screen: points at which exact intermediates leave the floating-point range are not executed at all
        vs0 = sorted(J.variables(c["tree"]))

        def _pp(p, c=c, vs0=vs0):
            return {(vs0[0] if vs0 else "whatever"): p} if c["mode"] == "number" else p
        if len(vs0) <= (1 if c["mode"] == "number" else 99):
            c["pts"] = [p for p in c["pts"] if not (set(vs0) <= set(_pp(p)) and SV.out_of_range(c["tree"], _pp(p)))]
        heap = J.tree_to_heap(c["tree"], share=c["share"])
        row = {"i": i, "h": heap, "mode": c["mode"], "pts": c["pts"]}
        try:
            objs = J.build_heap(heap)
        except Exception as exc:  # construction of a well-formed tree must not fail
            row["outs"] = [{"k": "PyError", "t": "ctor_" + type(exc).__name__} for _ in c["pts"]]
            row["svs"] = [{"k": "ill"} for _ in c["pts"]]
            rows.append(row)
            continue
        if c.get("subnodes"):
            # one event per sub-node object: the heap prefix ending at that node, evaluated through the object built for the FULL heap
            for kk in range(1, len(heap)):
                sub = J.heap_to_tree(heap, kk)
                if heap[kk - 1]["op"] == "Constant":
                    continue
                svars = sorted(J.variables(sub))
                r2 = {"i": None, "h": heap[:kk], "mode": "number", "pts": c["pts"], "outs": [], "svs": []}
                if len(svars) <= 1:
                    r2["pts"] = [pn for pn in c["pts"] if not SV.out_of_range(sub, {(svars[0] if svars else "whatever"): pn})]
                for pnum in r2["pts"]:
                    val = J.v_to_py(pnum)
                    r2["outs"].append(J.outcome_of(lambda: objs[kk - 1].at(val)))
                    r2["svs"].append(SV.sv_record(SV.value(sub, {(svars[0] if svars else "whatever"): pnum})) if len(svars) <= 1 else {"k": "ill"})
                extra_rows.append((r2, {"tree": sub, "share": True, "mode": "number", "pts": r2["pts"]}))
            continue
        root = objs[-1]
        outs, svs = [], []
        vs = sorted(J.variables(c["tree"]))
        for p in c["pts"]:
            if c["mode"] == "number":
                val = J.v_to_py(p)
                outs.append(J.outcome_of(lambda: root.at(val)))
                if len(vs) <= 1:
                    pp = {(vs[0] if vs else "whatever"): p}
                    svs.append(SV.sv_record(SV.value(c["tree"], pp)))
                else:
                    svs.append({"k": "ill"})
            else:
                outs.append(J.outcome_of(lambda: root.at(J.build_point(p))))
                if set(vs) <= set(p):
                    svs.append(SV.sv_record(SV.value(c["tree"], p)))
                else:
                    svs.append({"k": "ill"})
        row["outs"], row["svs"] = outs, svs
        rows.append(row)
    # sub-node events get their own case entries (appended to `cases` so that rows and cases stay aligned)
    keep = [c for c in cases if not c.get("subnodes")]
    cases[:] = keep + [c2 for _, c2 in extra_rows]
    rows += [r2 for r2, _ in extra_rows]
    for i, r in enumerate(rows, 1):
        r["i"] = i
    return rows


def float_layer(case, row, j, pid_tags):
    """decide a (case, point) the spec left open ("fl"); returns list of violation tags"""
    o = row["outs"][j]
    p = case["pts"][j]
    if case["mode"] == "number":
        vs = sorted(J.variables(case["tree"]))
        p = {(vs[0] if vs else "whatever"): p}
    res = SV.value(case["tree"], p)
    if res[0] == "illcond":
        return ["skip_illcond"]
    if res[0] == "undef":
        return ["V:C02.number_outside_domain"] if o["k"] in NUMK else []
    if o["k"] == "DomainError":
        return ["V:C02.raised_on_domain", "V:C01.raised"]
    if o["k"] == "bad":
        return ["V:C02.not_a_finite_real_" + o.get("t", "")]       # defined, every exact intermediate in range - and not a finite real
    if o["k"] in NUMK:
        f = float(o["repr"])
        ok = SV.close(f, res[1], res[2], rel=1e-11)
        if ok is None:
            return ["skip_illcond"]
        return [] if ok else ["V:C01.value_float"]
    return []


def run(pid, tier, seed, src_note=None):
    rep = Report(pid, tier, seed)
    cases = cases_for(pid, tier, seed)
    rows = run_impl(cases)
    lines, results = tlcrun.run_chunked("EvalCases", "EvalCases.cfg", rows, timeout=1200)
    for res in results:
        if res["violated"]:
            raise Machinery(f"design-level invariant {res['violated']} violated in EvalCases: the operational model, the "
                            f"reference semantics or the oracle cross-check disagree on a fed case\n" + "\n".join(l for l in res["out"].splitlines()[-30:] if not l.startswith('"{')))
    verd = {l["i"]: l["v"] for l in lines if isinstance(l, dict) and "i" in l}
    if len(verd) != len(rows):
        raise Machinery(f"verdict lines {len(verd)} != events {len(rows)} (trace spec did not judge every event)")
    for res in results:
        rep.add_tlc(res)
    counts = {"ok": 0, "fl": 0, "drift": 0, "skip_illcond": 0, "fl_decided": 0, "sv_crosschecked": 0}
    nontrivial = set()
    n_points = 0
    for case, row in zip(cases, rows):
        vlist = verd[row["i"]]
        for j, tags in enumerate(vlist):
            n_points += 1
            tags = list(tags)
            if "SV:mismatch" in tags:
                raise Machinery(f"specval disagrees with the spec on an exact case: {J.show(case['tree'])} {case['pts'][j]}")
            if "sv" in tags:
                counts["sv_crosschecked"] += 1
            if "fl" in tags:
                counts["fl"] += 1
                extra = float_layer(case, row, j, pid)
                if "skip_illcond" in extra:
                    counts["skip_illcond"] += 1
                else:
                    counts["fl_decided"] += 1
                tags += extra
            if "drift" in tags:
                counts["drift"] += 1
            if any(t.startswith("V:C17") or t.startswith("V:C14.number_rejected") for t in tags):
                # the property excludes cases whose exact intermediates leave the floating-point range:
                # ask the float layer whether this case overflows / sits next to a boundary
                pp = case["pts"][j]
                if case["mode"] == "number":
                    vs_ = sorted(J.variables(case["tree"]))
                    pp = {(vs_[0] if vs_ else "whatever"): pp}
                if set(J.variables(case["tree"])) <= set(pp) and SV.value(case["tree"], pp)[0] == "illcond":
                    tags = [t for t in tags if not (t.startswith("V:C17") or t.startswith("V:C14.number_rejected"))]
                    counts["skipped_out_of_range"] = counts.get("skipped_out_of_range", 0) + 1
            vt = [t for t in tags if t.startswith("V:")]
            if not vt:
                counts["ok"] += 1
            for t in vt:
                prop = t[2:5]
                desc = {"expr": J.show(case["tree"]), "tree": case["tree"], "shared": case["share"], "mode": case["mode"],
                        "point": case["pts"][j], "outcome": row["outs"][j], "route": "Expression.at"}
                if prop == pid:
                    rep.violation(t[2:], desc)
                else:
                    rep.other[t[2:]] = rep.other.get(t[2:], 0) + 1
            o = row["outs"][j]
            if pid == "C02":
                if o["k"] == "DomainError" or "fl" in tags or J.size(case["tree"]) >= 3:
                    nontrivial.add((J.key(case["tree"]), json.dumps(case["pts"][j], sort_keys=True)))
            elif J.size(case["tree"]) >= 2:
                nontrivial.add((J.key(case["tree"]), json.dumps(case["pts"][j], sort_keys=True), case["mode"]))
    smp = []
    for c, r in list(zip(cases, rows))[:: max(1, len(cases) // 6)][:6]:
        smp.append({"expr": J.show(c["tree"]), "mode": c["mode"], "shared_nodes": c["share"], "point": c["pts"][0] if c["pts"] else None,
                    "implementation_outcome": r["outs"][0] if r["outs"] else None, "tlc_verdict": verd[r["i"]][0] if verd[r["i"]] else None})
    rep.cov["samples"] = smp
    rep.assumptions = ["reference semantics SmSem.tla is the meaning of the property (Appendix A of DESIGN.md)",
                       "irrational / out-of-guard cases ('fl') are judged by harness/specval.py, cross-checked by TLC on every exact case",
                       "IEEE-754 double arithmetic and libm of this platform"]
    extra = {}
    if pid == "C14" and REPLAY is None:
        # the derivative clauses of C14 (never CoordinateMissing when the expression's variables are supplied, also when the
        # differentiation variable is absent; Derivative accepts exactly the expressions with <= 1 variable): engine E-diff
        import eng_diff
        dcov = eng_diff.collect(rep, "C14", tier, seed)
        extra = {"derivative_routes": {k: v for k, v in dcov.items() if k in ("queries", "cases", "ok", "fl", "drift")}}
        n_points += dcov["evaluations"]
        nontrivial |= {("diff", k) for k in range(dcov["distinct_nontrivial"])}
        len_rows_extra = dcov["traces_validated_against_impl"]
    elif pid == "C17" and REPLAY is None:
        # C17 speaks about evaluation, EVERY derivative query and as_expression(): the other engines run with their C17 clauses
        import eng_diff, eng_sym
        dcov = eng_diff.collect(rep, "C17", tier, seed)
        scov = eng_sym.collect(rep, "C17", tier, seed)
        extra = {"derivative_routes": {k: v for k, v in dcov.items() if k in ("queries", "cases", "ok", "fl", "drift")},
                 "as_expression": {k: v for k, v in scov.items() if k in ("expressions", "pairs", "point_checks", "second_order_checks")},
                 "illegal_parameter_probes": illegal_probes(rep)}
        n_points += dcov["evaluations"] + scov["evaluations"]
        len_rows_extra = dcov["traces_validated_against_impl"] + scov["traces_validated_against_impl"]
    else:
        len_rows_extra = 0
    return rep.finish({"evaluations": n_points, "distinct_nontrivial": len(nontrivial), **extra,
                       "traces_validated_against_impl": len(rows) + len_rows_extra, "cases": len(rows), **counts,
                       "rule": "cases = (expression heap, list of points) enumerated from the bounded universes of harness/gen.py "
                               "(U2 over D1q, boundary universe, DAG-shared variants, seeded depth-3 random trees, bare-number entry, float points); "
                               "distinct = structurally distinct (tree, point, mode); non-trivial = tree has >= 2 nodes (C02: also a raising or boundary case)"},
                      exhaustive=False)
