"""Engine E-reduce: simplification (C08 soundness, C11 termination / rule-free form).
spec: spec/ReduceCases.tla (+ SmReduce: every rewrite rule, the driver, flags, folding, NF pass, budget)."""
from __future__ import annotations
import io, json, logging, os, random, shutil
import gen, smjson as J, specval as SV, tlcrun
from common import Report, Machinery, write_ndjson, load_known

NUMK = ("q", "f")


def snapshot(obj):
    """library expression -> E with the two memo flags on every node"""
    e = J.expr_to_E(obj)

    def flags(o, t):
        t["red"] = bool(getattr(o, "_is_fully_reduced", False))
        t["ef"] = bool(getattr(o, "_evaluation_failed", False))
        cn = type(o).__name__
        if cn in J.NARY:
            for oc, tc in zip(o._inners, t["args"]):
                flags(oc, tc)
        elif cn in J.BIN:
            flags(o._left, t["l"])
            flags(o._right, t["r"])
        elif cn not in ("Variable", "Constant"):
            flags(o._inner, t["a"])
    flags(obj, e)
    return e


class WarnCatcher(logging.Handler):
    def __init__(self):
        super().__init__(level=logging.WARNING)
        self.hit = False

    def emit(self, record):
        if "Unable to fully reduce" in record.getMessage():
            self.hit = True


def set_budget(b):
    import smoothmath._private.base_expression.expression as be
    old = be.REDUCTION_STEPS_BOUND
    be.REDUCTION_STEPS_BOUND = b
    return old


def library_budget():
    import smoothmath._private.base_expression.expression as be
    return int(be.REDUCTION_STEPS_BOUND)


def derive(tree, budget=None, prep=None, sparse=False):
    """single-step the real rewriter on a fresh copy, then NF; and an independent end-to-end _normalize().
    prep() builds the input object (default: fresh from the tree); it is called twice so that the stepped
    object and the end-to-end object have the same history."""
    obj = prep() if prep is not None else J.build_tree(tree)
    n = J.size(tree)
    cap = 2 * n * n + 10 + 3
    forms = [snapshot(obj)]
    steps = 0
    while not obj._is_fully_reduced and steps < cap:
        obj = obj._take_reduction_step()
        if steps < 400:
            forms.append(snapshot(obj))
        steps += 1
    capped = not obj._is_fully_reduced
    if capped:
        forms = forms[:80]       # a runaway derivation: keep a prefix (enough to exhibit a cycle), TLC reports the bound
    elif steps >= 400:
        forms.append(snapshot(obj))
    if sparse and len(forms) > 2:
        forms = [forms[0], forms[-1]]     # very large inputs: only the end points are recorded (judged as one pair, plus NF and end to end)
    nf = snapshot(obj._normalize_fully_reduced()) if not capped else forms[-1]
    fresh = prep() if prep is not None else J.build_tree(tree)
    h = WarnCatcher()
    root = logging.getLogger()
    root.addHandler(h)
    old = set_budget(budget) if budget is not None else None      # None: the library's OWN budget, whatever it is
    try:
        norm = snapshot(fresh._normalize())
    finally:
        if old is not None:
            set_budget(old)
        root.removeHandler(h)
    # "own": the event ran with the library's own budget (C11: inputs of <= 20 nodes must finish inside it without the warning)
    return {"forms": forms, "nf": nf, "norm": norm, "warn": h.hit, "budget": budget if budget is not None else 1000, "own_budget": budget is None,
            "library_budget": library_budget(), "capped": capped, "nsteps": steps, "stepid": False}


def second_round(rnd, tier):
    """inputs that CONTAIN OUTPUTS OF EARLIER SIMPLIFICATIONS (objects returned by _normalize / as_expression, with whatever
    memo flags they carry), embedded in new expressions or differentiated again"""
    S = J.sm()
    src = gen.dedup(gen.rule_patterns("quick")[::7] + gen.towers(3)[::3] + gen.products()[::5] + gen.d1q())
    src = [t for t in src if J.variables(t) and J.size(t) <= 14]
    wraps = [lambda o: S.Sine(o), lambda o: S.Add(o, S.Variable("x")), lambda o: S.Multiply(o, o), lambda o: S.Negation(o),
             lambda o: S.Reciprocal(o), lambda o: S.NthPower(o, 2), lambda o: S.Minus(S.Variable("y"), o), lambda o: S.Exponential(o, base=2),
             lambda o: o._synthetic_partial("x"), lambda o: o._synthetic_partials().get("x", S.Constant(0)),
             lambda o: S.Partial(o, "x").as_expression()._synthetic_partial("x"), lambda o: S.Divide(o, S.Add(o, S.Constant(1)))]
    out = []
    for t in rnd.sample(src, min(len(src), 250 if tier == "quick" else 1500)):
        w = rnd.choice(wraps)
        via = rnd.choice(("normalize", "partial"))

        def prep(t=t, w=w, via=via):
            o = J.build_tree(t)
            o1 = o._normalize() if via == "normalize" else S.Partial(o, "x").as_expression()
            return w(o1)
        try:
            tree = J.expr_to_E(prep())
        except Exception:
            continue        # (OverflowError: out of range; anything else shows up in the main inputs, where it is judged)
        if J.size(tree) <= 80:
            out.append((tree, prep))
    return out


def max_param(d):
    """largest NthPower / NthRoot parameter occurring anywhere in a recorded derivation"""
    m = 0

    def walk(e):
        nonlocal m
        if "k" in e and e["op"] in J.KUN:
            m = max(m, e["k"])
        for c in J.kids(e):
            walk(c)
    for f in d["forms"] + [d["nf"], d["norm"]]:
        walk(f)
    return m


def points_for(tree, tier, rnd):
    vs = sorted(J.variables(tree))
    vals = [gen.q(-2), gen.q(-1), gen.q(0), gen.q(1, 2), gen.q(1), gen.q(2)]
    if len(vs) <= 1:
        return gen.grid(vs, vals + ([gen.q(3), gen.q(-1, 2)] if tier == "thorough" else []))
    if len(vs) == 2:
        return gen.grid(vs, [gen.q(-1), gen.q(0), gen.q(1, 2), gen.q(2)] if tier == "quick" else vals)
    return rnd.sample(gen.grid(vs, vals), 30)


REPLAY = None


def replay(pid, path):
    global REPLAY
    v = json.load(open(path))["case"]
    REPLAY = (v["tree"], int(v.get("budget", 1000)))
    return run(pid, "quick", 0)


def special_inputs():
    """shapes suggested by the second round of seeded defects"""
    X, Y, C = gen.X, gen.Y, gen.C
    out = []
    # a closed unary node over an inner that cannot be evaluated UNTIL a domain-enlarging rewrite has fired inside it
    redexes = [J.Bin("Power", J.Const(-3), J.Const(2)), J.KUn("NthPower", J.KUn("NthRoot", J.Const(-4), 2), 2), J.BUn("Exponential", J.BUn("Logarithm", J.Const(-1), gen.E_), gen.E_),
               J.Un("Reciprocal", J.Un("Reciprocal", J.Const(0))), J.Mul(J.Const(0), J.Un("Reciprocal", J.Const(0))), J.Bin("Power", J.Const(0), J.Const(0)),
               J.Bin("Power", J.BUn("Logarithm", J.Const(-1), gen.E_), J.Const(0))]
    for r in redexes:
        for w in (lambda t: J.Un("Cosine", t), lambda t: J.Un("Sine", t), lambda t: J.Un("Negation", t), lambda t: J.BUn("Logarithm", t, gen.q(3)), lambda t: J.KUn("NthRoot", t, 3),
                  lambda t: J.BUn("Exponential", t, gen.q(2)), lambda t: J.Add(X, J.BUn("Logarithm", t, gen.q(3))), lambda t: J.Mul(Y, J.Un("Cosine", t)), lambda t: J.KUn("NthPower", t, 2)):
            out.append(w(r))
    # powers of powers of roots whose indices only share a factor after merging
    for r_, m, n in ((2, 3, 2), (2, 3, 4), (3, 2, 3), (4, 3, 2), (6, 5, 2), (2, 5, 2), (3, 4, 3)):
        out.append(J.KUn("NthPower", J.KUn("NthPower", J.KUn("NthRoot", X, r_), m), n))
        out.append(J.Bin("Power", J.KUn("NthPower", J.KUn("NthRoot", X, r_), m), J.Const(n)))
    # Power with an NthPower / even-root base, division by constant zero (literal, after folding, inside derivative formulas)
    for k in (2, 3, 4):
        out += [J.Bin("Power", J.KUn("NthPower", X, k), Y), J.Bin("Power", J.KUn("NthPower", X, k), J.Const(5, 2)), J.Bin("Power", J.KUn("NthPower", J.Bin("Minus", X, Y), k), J.Const(1, 2))]
    out += [J.Bin("Divide", X, J.Const(0)), J.Bin("Divide", X, J.Bin("Minus", J.Const(3), J.Const(3))), J.Mul(X, J.Un("Reciprocal", J.Const(0))), J.Mul(X, J.BUn("Logarithm", J.Const(0), gen.E_)),
            J.Bin("Divide", J.Add(X, Y), J.Const(2)), J.Bin("Divide", X, J.Const(1, 2)), J.Bin("Divide", X, J.Mul(J.Const(0), J.Const(5)))]
    # tiny folded constants in places where an exact zero would matter
    tiny = [J.BUn("Exponential", J.Const(-40), gen.E_), J.KUn("NthPower", J.Const(1, 1000), 5), J.Bin("Divide", J.Const(1), J.KUn("NthPower", J.Const(10), 6))]
    for tn in tiny:
        out += [J.Bin("Divide", X, tn), J.BUn("Logarithm", J.Add(J.KUn("NthPower", X, 2), tn), gen.E_), J.Mul(tn, X), J.Un("Reciprocal", J.Add(J.KUn("NthPower", X, 2), tn))]
    return out


def inputs_for(pid, tier, seed):
    if REPLAY is not None:
        return [REPLAY[0]]
    rnd = random.Random(3000 + seed)
    quick = tier == "quick"
    pats = gen.rule_patterns(tier)
    ws = gen.wrappers()
    ins = []
    base = rnd.sample(pats, 2200) if quick else pats
    ins += base
    # rule interactions: every pattern wrapped once more in every constructor (sampled in the quick tier)
    for t in (rnd.sample(pats, 1500) if quick else pats):
        for w in (rnd.sample(ws, 2) if quick else rnd.sample(ws, 3)):
            ins.append(w(t))
    ins += gen.chains(12 if quick else 20)
    ins += special_inputs()
    ins += gen.constant_trees(seed + 5, 150 if quick else 1500)
    ins += gen.random_trees(seed * 13 + 1, 400 if quick else 8000, depth=3)
    ins += gen.random_trees(seed * 13 + 2, 60 if quick else 1500, depth=4)
    # symbolic derivatives (unnormalised) of U2-like trees: what as_expression() feeds to the rewriter
    S = J.sm()
    src = gen.dedup(gen.d1q() + rnd.sample(gen.over(gen.d1q(), ks=(1, 2, 3)), 250 if quick else 3000) + gen.towers(3)[: (60 if quick else 400)])
    for t in src:
        if J.variables(t) and J.size(t) <= 12:
            try:
                o = J.build_tree(t)
                ins.append(J.expr_to_E(o._synthetic_partial("x")))
                if not quick or rnd.random() < 0.3:
                    for nm, ex in o._synthetic_partials().items():
                        ins.append(J.expr_to_E(ex))
            except Exception:
                pass
    ins = [t for t in gen.dedup(ins) if J.size(t) <= (60 if quick else 120)]
    return ins


def run(pid, tier, seed):
    rep = Report(pid, tier, seed)
    rnd = random.Random(3100 + seed)
    ins = inputs_for(pid, tier, seed)
    rows, cases = [], []
    # give-up path: the library's own budget lowered in THIS process (module global read at call time)
    small = [t for t in ins if 6 <= J.size(t) <= 25]
    giveup = [(t, b) for t in rnd.sample(small, min(len(small), 250 if tier == "quick" else 2500)) for b in (3, 5, 8)]
    big = []
    if tier == "thorough":
        for k in range(40):
            big.append(gen.random_tree(random.Random(seed * 17 + k), 6))
        big = [t for t in big if 150 <= J.size(t) <= 700][:8]
    todo = [(t, None, None) for t in ins] + [(t, b, None) for t, b in giveup] + [(t, None, None) for t in big]
    todo += [(t, None, prep) for t, prep in second_round(rnd, tier)]
    if REPLAY is not None:
        todo = [(REPLAY[0], (REPLAY[1] if REPLAY[1] < 1000 else None), None)]
    skipped_overflow = 0
    for i, (t, b, prep) in enumerate(todo, 1):
        try:
            d = derive(t, budget=b, prep=prep, sparse=J.size(t) >= 150)
        except OverflowError:
            skipped_overflow += 1      # exact intermediates leave the floating-point range: excluded by the properties
            continue
        except Exception as exc:
            rep.violation("C17.foreign_" + type(exc).__name__ if pid == "C17" else f"{pid}.rewriter_raised_{type(exc).__name__}", {"expr": J.show(t), "tree": t})
            continue
        if max_param(d) > 100000:
            skipped_overflow += 1      # a parameter n beyond TLC's 32-bit integers (x ** 3 ** 20): excluded like overflow
            continue
        d["i"] = i
        d["pts"] = points_for(t, tier, rnd) if J.size(t) < 150 else points_for(t, "quick", rnd)[:8]
        # per-step identity verdicts (ReduceCases.Verdict.stepidv): short derivations in the quick tier, every one below 150 nodes in the thorough tier
        d["stepid"] = J.size(t) < 150 and (tier == "thorough" or len(d["forms"]) <= 10)
        rows.append(d)
        cases.append((t, b))
    lines, results = tlcrun.run_chunked("ReduceCases", "ReduceCases.cfg", rows, chunk=6000, timeout=(900 if tier == "quick" else 2400))
    for res in results:
        if res["violated"]:
            raise Machinery(f"design-level invariant {res['violated']} violated in ReduceCases (a model step is unsound and is not the named finding)\n"
                            + "\n".join(l for l in res["out"].splitlines()[-40:] if not l.startswith('"{')))
    verd = {l["i"]: l["v"] for l in lines if isinstance(l, dict) and "i" in l}
    if len(verd) != len(rows):
        raise Machinery(f"verdict lines {len(verd)} != events {len(rows)}")
    for res in results:
        rep.add_tlc(res)
    ts_cov = {}
    if REPLAY is None:
        # design level, independent of the implementation: the rewrite MODEL as a transition system over the rule universe -
        # every transition sound (action property), flags truthful, quadratic bound, and termination as LIVENESS (<>[] reduced)
        n_ts = (800 if pid == "C11" else 400) if tier == "quick" else 6000
        ts_in = [t for t in gen.dedup(rnd.sample(gen.rule_patterns(tier), n_ts) + gen.chains(8)[:40] + gen.constant_trees(seed + 5, 60)) if J.size(t) <= 30]
        work2 = tlcrun.scratch_dir("rts")
        try:
            tsf = os.path.join(work2, "inputs.ndjson")
            write_ndjson(tsf, [{"t": t} for t in ts_in])
            rts = tlcrun.run("ReduceTS", "ReduceTS.cfg", trace_file=tsf, workers=8, timeout=(900 if tier == "quick" else 3000), expect_violation=True)
        finally:
            shutil.rmtree(work2, ignore_errors=True)
        if rts["violated"]:
            raise Machinery(f"the rewrite MODEL as a transition system violates {rts['violated']} (design-level counterexample)\n"
                            + "\n".join(rts["out"].splitlines()[-40:])[:5000])
        if not rts["ok"]:
            raise Machinery("ReduceTS did not complete\n" + "\n".join(rts["out"].splitlines()[-20:]))
        rep.add_tlc(rts)
        ts_cov = {"model_transition_system": {"initial_expressions": len(ts_in), "states": rts.get("distinct"), "depth": rts.get("depth"),
                                              "properties": ["StepsSound", "FlagsTruthful", "Bounded", "EndsRuleFree", "Terminates (liveness, WF)"]}}
    counts = {"steps": 0, "drift_steps": 0, "fl_points": 0, "fl_decided": 0, "skip_illcond": 0, "kf1_steps": 0, "gaveup_events": 0,
              "untruthful_flags": 0, "max_steps": 0, "max_steps_ratio": 0.0}
    rules = {}
    nontrivial = set()

    def fl_pair(a, b, pts, idxs):
        """float layer on one pair; returns True if some point is unsound"""
        bad = False
        for j in idxs:
            counts["fl_points"] += 1
            ra = SV.value(a, pts[j - 1])
            if ra[0] != "ok":
                if ra[0] == "illcond":
                    counts["skip_illcond"] += 1
                continue
            rb = SV.value(b, pts[j - 1])
            if rb[0] == "illcond":
                counts["skip_illcond"] += 1
                continue
            counts["fl_decided"] += 1
            if rb[0] == "undef":
                bad = True
            else:
                ok = SV.close(float(rb[1]), ra[1], max(ra[2], rb[2]), rel=1e-9)
                if ok is False:
                    bad = True
        return bad

    for row, (t, b) in zip(rows, cases):
        v = verd[row["i"]]
        k = len(row["forms"])
        counts["steps"] += k - 1
        counts["max_steps"] = max(counts["max_steps"], row["nsteps"])
        n0 = J.size(t)
        counts["max_steps_ratio"] = max(counts["max_steps_ratio"], round(row["nsteps"] / (n0 * n0), 3)) if n0 >= 5 else counts["max_steps_ratio"]
        if row["warn"]:
            counts["gaveup_events"] += 1
        if not v["truthful"]:
            counts["untruthful_flags"] += 1
        desc = {"expr": J.show(t), "tree": t, "budget": b, "steps": row["nsteps"]}
        tags_here = []
        kf_other_bad = False
        kf_any = False
        for j, st in enumerate(v["steps"]):
            st = list(st)
            rule = st[-1]
            rules[rule] = rules.get(rule, 0) + 1
            if "drift" in st:
                counts["drift_steps"] += 1
            if "kf1step" in st:
                counts["kf1_steps"] += 1
            bad_tlc = "V:C08.step_unsound" in st
            bad_fl = False
            if v["fl"][j]:
                bad_fl = fl_pair(row["forms"][j], row["forms"][j + 1], row["pts"], v["fl"][j])
            if "KF1" in st or (bad_fl and "kf1step" in st and "drift" not in st):
                kf_any = True
                rep.known("KF-1", "rewrite rule NthRoot(NthPower(u,m),n) => NthPower(NthRoot(u,n),m) with n and m even changes the value / shrinks the domain")
            elif bad_tlc or bad_fl:
                kf_other_bad = True
                tags_here.append(("C08.step_unsound", {**desc, "step": j + 1, "before": J.show(row["forms"][j]), "after": J.show(row["forms"][j + 1]),
                                                       "model_rule": rule}))
        for tg in v["c11"]:
            tags_here.append((tg[2:], desc))
        if not v["truthful"]:
            tags_here.append(("C11.untruthful_flag", desc))
        nf_bad = any(tg.startswith("V:") for tg in v["nf"]) or (v["nffl"] and fl_pair(row["forms"][-1], row["nf"], row["pts"], v["nffl"]))
        if nf_bad:
            tags_here.append(("C08.nf_unsound", {**desc, "reduced": J.show(row["forms"][-1]), "nf": J.show(row["nf"])}))
        e2e_tl = [tg for tg in v["e2e"] if tg.startswith("V:")]
        e2e_fl = bool(v["e2efl"]) and fl_pair(row["forms"][0], row["norm"], row["pts"], v["e2efl"])
        if "KF1" in v["e2e"]:
            rep.known("KF-1", "rewrite rule NthRoot(NthPower(u,m),n) => NthPower(NthRoot(u,n),m) with n and m even changes the value / shrinks the domain")
        for tg in e2e_tl:
            tags_here.append((tg[2:], {**desc, "normalized": J.show(row["norm"])}))
        if e2e_fl and not e2e_tl and "KF1" not in v["e2e"]:
            if kf_any and not kf_other_bad and not nf_bad:
                rep.known("KF-1", "rewrite rule NthRoot(NthPower(u,m),n) => NthPower(NthRoot(u,n),m) with n and m even changes the value / shrinks the domain")
            else:
                tags_here.append(("C08.normalize_unsound", {**desc, "normalized": J.show(row["norm"])}))
        for j, sv in enumerate(v.get("stepidv", [])):
            if sv != "off":
                counts["step_identity_" + sv] = counts.get("step_identity_" + sv, 0) + 1
            if sv == "differs":
                # a rational-fragment step never is the known finding KF-1 (that one needs an NthRoot)
                tags_here.append(("C08.step_changes_value_on_identity_grid", {**desc, "step": j + 1, "before": J.show(row["forms"][j]), "after": J.show(row["forms"][j + 1])}))
        if v.get("nfidv", "off") != "off":
            counts["nf_identity_" + v["nfidv"]] = counts.get("nf_identity_" + v["nfidv"], 0) + 1
            if v["nfidv"] == "differs":
                tags_here.append(("C08.nf_changes_value_on_identity_grid", {**desc, "reduced": J.show(row["forms"][-1]), "nf": J.show(row["nf"])}))
        counts["identity_" + v["idv"]] = counts.get("identity_" + v["idv"], 0) + 1
        if v["idv"] == "differs":
            tags_here.append(("C08.normalize_changes_value_on_identity_grid", {**desc, "normalized": J.show(row["norm"])}))
        for clause, d in tags_here:
            if clause[:3] == pid:
                rep.violation(clause, d)
            else:
                rep.other[clause] = rep.other.get(clause, 0) + 1
        if k >= 3:
            nontrivial.add(J.key(t))
    fired = {r: c for r, c in sorted(rules.items()) if r not in ("", "FLAG")}
    smp = []
    for row, (t, b) in list(zip(rows, cases))[:: max(1, len(rows) // 5)][:5]:
        smp.append({"input": J.show(t), "budget": b, "derivation": [J.show(f) for f in row["forms"]][:12], "normalized": J.show(row["norm"]),
                    "model_rules_fired": [list(s)[-1] for s in verd[row["i"]]["steps"]][:12], "warning": row["warn"]})
    rep.cov["samples"] = smp
    rep.assumptions = ["reference semantics SmSem.Val decides soundness of each recorded step on the grid; irrational cases by harness/specval.py (tolerance 1e-9: 'up to rounding of folded constants')",
                       "private driver _take_reduction_step/_normalize_fully_reduced/_normalize (the same entry points the repository's own normalisation tests use)",
                       "known finding KF-1 (known_findings.json) is attributed only to steps TLC identifies as rule T2 with even n and m"]
    all_rules = ["A1", "A2", "A3", "A4", "P1", "P2", "P3", "P4", "P5", "P6", "P7", "P8", "M1", "D1", "N1", "N2", "R1", "R2", "R3", "W1", "W2", "W3", "W4", "W5",
                 "W6", "W7", "W8", "W9", "Q1", "Q2", "Q3", "Q4", "Q5", "Q6", "T1", "T2", "T3", "T4", "T5", "X1", "X2", "L1", "L2", "L3", "C1", "S1", "F"]
    never = [r for r in all_rules if r not in fired]
    if never and REPLAY is None:
        print(f"[{pid}] note: rewrite rules that did not fire in this run (reported in the evidence): {never}")
    return rep.finish({"evaluations": counts["steps"] + 2 * len(rows), "distinct_nontrivial": len(nontrivial), "traces_validated_against_impl": len(rows),
                       "derivations": len(rows), "skipped_overflow": skipped_overflow, "rule_fire_counts": fired, "rules_never_fired": never, **ts_cov, **counts,
                       "rule": "inputs = every rewrite rule's left-hand pattern with holes from H, parameters (n,m) in 1..6^2, bases, positions in n-ary lists, "
                               "each wrapped once more in every constructor (sampled in quick), nested chains, variable-free trees (folding, failed folding), "
                               "seeded random trees depth 3-4, unnormalised symbolic derivatives (both routes), give-up runs with budget 3/5/8 (thorough: 150-700-node inputs with the real budget); "
                               "one case = one complete recorded derivation; non-trivial = at least 2 steps"}, exhaustive=False)


def kf1_attribution(trees, tier="quick"):
    """For violations seen by OTHER engines on outputs of the simplifier: single-step the real rewriter on each of the given
    (unnormalised) inputs and let TLC identify the rules.  Returns one bool per input: True iff the recorded derivation
    contains at least one unsound step that TLC identifies as rule T2 with even n and even m (KF-1) and NO other unsound step."""
    if not trees:
        return []
    rnd = random.Random(99)
    rows = []
    CAP = 150          # a mass failure is not the named finding: only the first CAP derivations are examined, the rest stay violations
    for i, t in enumerate(trees[:CAP], 1):
        try:
            d = derive(t)
        except Exception:
            continue
        d["i"] = i
        d["pts"] = points_for(t, "quick", rnd)
        rows.append(d)
    work = tlcrun.scratch_dir("kf1")
    try:
        trace = os.path.join(work, "trace.ndjson")
        write_ndjson(trace, rows)
        res = tlcrun.run("ReduceCases", "ReduceCases.cfg", trace_file=trace, timeout=900, expect_violation=True)
    finally:
        shutil.rmtree(work, ignore_errors=True)
    verd = {l["i"]: l["v"] for l in res["lines"] if isinstance(l, dict) and "i" in l}
    out_by_i = {}
    for row in rows:
        v = verd.get(row["i"])
        if v is None:
            out_by_i[row["i"]] = False
            continue
        kf_any, other = False, False
        for j, st in enumerate(v["steps"]):
            st = list(st)
            bad = "V:C08.step_unsound" in st
            if not bad and not ("KF1" in st) and v["fl"][j]:
                bad_fl = False
                for jj in v["fl"][j]:
                    ra = SV.value(row["forms"][j], row["pts"][jj - 1])
                    if ra[0] != "ok":
                        continue
                    rb = SV.value(row["forms"][j + 1], row["pts"][jj - 1])
                    if rb[0] == "undef" or (rb[0] == "ok" and SV.close(float(rb[1]), ra[1], max(ra[2], rb[2]), rel=1e-9) is False):
                        bad_fl = True
                if bad_fl:
                    if "kf1step" in st and "drift" not in st:
                        kf_any = True
                    else:
                        other = True
            if "KF1" in st:
                kf_any = True
            elif bad:
                other = True
        out_by_i[row["i"]] = kf_any and not other
    return [out_by_i.get(i, False) for i in range(1, len(trees) + 1)]
