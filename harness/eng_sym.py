"""Engine E-sym: symbolic derivatives handed out by as_expression()  (C05).
spec: spec/SymCases.tla (+ SmDiffSym: both symbolic routes node for node, SmReduce, SmSem.DVal / D2Val reference)."""
from __future__ import annotations
import json, os, random, shutil
import gen, smjson as J, specval as SV, tlcrun, eng_reduce
from common import Report, Machinery, write_ndjson

KF1_TEXT = "early/symbolic partial whose simplification used the rewrite NthRoot(NthPower(u,m),n) => NthPower(NthRoot(u,n),m) with n and m even"


REPLAY = None


def replay(pid, path):
    global REPLAY
    REPLAY = [json.load(open(path))["case"]["tree"]]
    return run(pid, "quick", 0)


def exprs_for(tier, seed):
    if REPLAY is not None:
        return list(REPLAY)
    rnd = random.Random(4000 + seed)
    quick = tier == "quick"
    u2 = gen.over(gen.d1q(), ks=(1, 2, 3, 4, 5, 6), nary3=[(gen.X, gen.Y, gen.C[1]), (gen.X, gen.X, gen.Y), (gen.X, gen.C[0], gen.Y)])
    ts = gen.d1q() + (rnd.sample(u2, 900) if quick else rnd.sample(u2, 6000)) + gen.towers(3)[:: (3 if quick else 1)] + gen.products()[:: (6 if quick else 1)]
    ts += gen.random_trees(seed * 19 + 1, 250 if quick else 5000, depth=3)
    # the shapes behind the known finding and their neighbours (so the KNOWN-FINDING line is deterministic)
    ts += [J.KUn("NthRoot", J.KUn("NthPower", gen.X, 2), 2), J.KUn("NthRoot", J.KUn("NthPower", gen.X, 2), 4),
           J.KUn("NthRoot", J.KUn("NthPower", gen.X, 3), 2), J.KUn("NthRoot", J.KUn("NthPower", gen.X, 2), 3)]
    # n-ary products with >= 3 explicit factors, zero factors reachable on the grid
    for a, b, c in [(gen.X, gen.Y, J.Add(gen.X, gen.C[1])), (gen.X, gen.X, gen.Y), (J.Var("w"), gen.X, gen.Y), (gen.X, J.Un("Sine", gen.Y), J.KUn("NthPower", gen.X, 2))]:
        ts += [J.Mul(a, b, c), J.Mul(a, b, c, gen.Y), J.Add(J.Mul(a, b, c), a)]
    # several directly negated factors in one product (sign bookkeeping of the product rule for negations)
    W = J.Var("w")
    ng = lambda a: J.Un("Negation", a)
    ts += [J.Mul(ng(gen.X), ng(gen.Y), ng(W)), J.Mul(ng(gen.X), ng(gen.Y), ng(W), gen.Y), J.Mul(ng(gen.X), ng(gen.Y), ng(gen.X), ng(gen.Y)),
           J.Mul(ng(J.Un("Sine", gen.X)), ng(gen.Y), ng(J.BUn("Exponential", gen.X, gen.q(2))), gen.Y), J.Mul(ng(gen.X), ng(gen.X), ng(gen.X))]
    # a variable occurring three or more times, the first occurrences with variable-free multipliers (reverse-route accumulator)
    ts += [J.Add(J.Mul(gen.C[2], gen.X), J.Mul(gen.C[3], gen.X), J.Mul(gen.X, gen.Y)), J.Add(gen.X, gen.X, J.Mul(gen.X, gen.Y), gen.Y),
           J.Add(J.Mul(gen.C[2], gen.X), gen.X, J.Mul(J.Un("Sine", gen.Y), gen.X), J.Mul(gen.X, gen.X)), J.Bin("Minus", J.Add(gen.X, gen.X), J.Mul(gen.Y, gen.X)),
           J.Add(gen.X, J.Mul(gen.C[3], gen.X), J.Bin("Divide", gen.X, gen.Y), J.KUn("NthPower", gen.X, 2))]
    # constant bases that are not positive; division by constant zero in its three guises; bases below one (also through Power => Exponential)
    ts += [J.Bin("Power", J.Const(0), gen.Y), J.Bin("Power", J.Const(-2), gen.Y), J.Mul(J.Bin("Power", J.Const(0), gen.Y), gen.X), J.Bin("Power", J.Const(1, 2), gen.X),
           J.Mul(gen.Y, J.BUn("Exponential", J.Mul(gen.X, gen.Y), gen.q(1, 4))), J.Bin("Power", J.Const(1, 4), J.Mul(gen.X, gen.Y)),
           J.Bin("Divide", gen.X, J.Const(0)), J.Bin("Divide", gen.X, J.Bin("Minus", J.Const(3), J.Const(3))), J.Mul(gen.X, J.Un("Reciprocal", J.Const(0))),
           J.Mul(gen.X, J.BUn("Logarithm", J.Const(0), gen.E_)), J.Bin("Power", J.KUn("NthPower", gen.X, 2), J.Const(5, 2)), J.Bin("Power", J.KUn("NthPower", gen.X, 2), gen.Y)]
    # non-integral constant exponents
    for cexp in ((5, 2), (7, 2), (3, 2), (1, 2), (-1, 2), (5, 1)):
        ts += [J.Bin("Power", gen.X, J.Const(*cexp)), J.Mul(J.Bin("Power", gen.X, J.Const(*cexp)), gen.Y), J.BUn("Exponential", J.Bin("Power", gen.X, J.Const(*cexp)), gen.E_)]
    return [t for t in gen.dedup(ts) if J.variables(t) and J.size(t) <= 16]


def expr_outcome(fn):
    def conv(o):
        return {"k": "expr", "e": eng_reduce.snapshot(o)}
    return J.outcome_of(fn, conv=conv, timeout=10)


def run(pid, tier, seed):
    rep = Report(pid, tier, seed)
    cov = collect(rep, pid, tier, seed)
    return rep.finish(cov, exhaustive=False)


def collect(rep, pid, tier, seed):
    S = J.sm()
    rnd = random.Random(4100 + seed)
    trees = exprs_for(tier, seed)
    if pid == "C17" and tier == "quick":
        trees = trees[::3] + trees[-60:]
    rows = []
    for i, t in enumerate(trees, 1):
        vs = sorted(J.variables(t))
        qv = vs + (["zz"] if i % 5 == 0 else [])
        q2 = vs[:2]
        pts = eng_reduce.points_for(t, tier, rnd)
        row = {"i": i, "e": eng_reduce.snapshot(J.build_tree(t)), "pts": pts, "q": qv, "q2": q2, "outs": [], "second": []}
        for t_i, v in enumerate(qv):
            varg = S.Variable(v) if t_i % 2 == 0 else v
            o = {"pa": expr_outcome(lambda: S.Partial(J.build_tree(t), varg).as_expression()),
                 "de": expr_outcome(lambda: S.Derivative(J.build_tree(t), compute_early=(i % 2 == 0)).as_expression()) if len(vs) == 1 and v == vs[0] else {"k": "na"},
                 "df": expr_outcome(lambda: S.Differential(J.build_tree(t), compute_early=True).component(varg).as_expression())}
            row["outs"].append(o)
            sec = []
            for w in q2:
                # differentiate the HANDED-OUT expression once more through the public API
                def second():
                    first = S.Partial(J.build_tree(t), v).as_expression()
                    return S.Partial(first, w).as_expression()
                sec.append(expr_outcome(second))
            row["second"].append(sec)
        rows.append(row)
    work = tlcrun.scratch_dir("sym")
    try:
        trace = os.path.join(work, "trace.ndjson")
        write_ndjson(trace, rows)
        res = tlcrun.run("SymCases", "SymCases.cfg", trace_file=trace, timeout=(900 if tier == "quick" else 3400))
    finally:
        shutil.rmtree(work, ignore_errors=True)
    verd = {l["i"]: l["v"] for l in res["lines"] if isinstance(l, dict) and "i" in l}
    if len(verd) != len(rows):
        raise Machinery(f"verdict lines {len(verd)} != events {len(rows)}")
    rep.add_tlc(res)
    counts = {"pairs": 0, "point_checks": 0, "fl_points": 0, "fl_decided": 0, "skip_illcond": 0, "drift": 0, "second_order_checks": 0, "kf1_attributed": 0}
    pending = []      # (clause, desc, tree whose unnormalised symbolic partial has to be attributed)
    model_bad = []

    def fl_points(t, v, w, S_tree, pts, idxs):
        bad = False
        for j in idxs:
            counts["fl_points"] += 1
            p = pts[j - 1]
            ev = SV.value(t, p)
            if ev[0] != "ok":
                if ev[0] == "illcond":
                    counts["skip_illcond"] += 1
                continue
            if w is None:
                r = SV.partial(t, v, p)
            else:
                r = second_ref(t, v, w, p)
            s = SV.value(S_tree, p)
            if r[0] == "illcond" or s[0] == "illcond":
                counts["skip_illcond"] += 1
                continue
            counts["fl_decided"] += 1
            if s[0] == "undef":
                bad = True
            elif r[0] == "ok" and SV.close(float(s[1]), r[1], max(s[2], r[2]), rel=1e-8) is False:
                bad = True
        return bad

    def second_ref(t, v, w, p):
        # numeric second-order reference: central difference of the exact first partial is not exact; use the spec's route:
        # value of the textbook derivative term differentiated by dual numbers (same as D2Val), transliterated through specval on Deriv
        import symref
        return SV.partial(symref.deriv(t, v), w, p)

    for t, row in zip(trees, rows):
        v_ = verd[row["i"]]
        for t_i, v in enumerate(row["q"]):
            pv = v_[t_i]
            counts["pairs"] += 1
            if pv["model_bad"]:
                model_bad.append((t, v))
            for rt in ("pa", "de", "df"):
                jr = pv[rt]
                o = row["outs"][t_i][rt]
                counts["point_checks"] += jr["n"]
                if o.get("k") == "expr":
                    counts["identity_" + jr["idv"]] = counts.get("identity_" + jr["idv"], 0) + 1
                tags = list(jr["tags"])
                if "drift" in tags:
                    counts["drift"] += 1
                if o.get("k") == "expr" and jr["fl"] and fl_points(t, v, None, o["e"], row["pts"], jr["fl"]):
                    tags.append("V?:C05.value_float")
                desc = {"expr": J.show(t), "tree": t, "variable": v, "route": rt, "handed_out": J.show(o["e"]) if o.get("k") == "expr" else o}
                for tg in tags:
                    if tg.startswith("V?:"):
                        pending.append((tg[3:], desc, t, v, rt))
                    elif tg.startswith("V:"):
                        if tg[2:5] == pid:
                            rep.violation(tg[2:] + "@" + rt, desc)
                        else:
                            rep.other[tg[2:]] = rep.other.get(tg[2:], 0) + 1
            for u, w in enumerate(row["q2"]):
                js = pv["second"][u]
                o = row["second"][t_i][u]
                counts["second_order_checks"] += js["n"]
                tags = list(js["tags"])
                if o.get("k") == "expr" and js["fl"] and fl_points(t, v, w, o["e"], row["pts"], js["fl"]):
                    tags.append("V?:C05.second_order_value_float")
                desc = {"expr": J.show(t), "tree": t, "variable": v, "second_variable": w, "route": "second", "handed_out": J.show(o["e"]) if o.get("k") == "expr" else o}
                for tg in tags:
                    if tg.startswith("V?:"):
                        pending.append((tg[3:], desc, t, v, "second"))
                    elif tg.startswith("V:"):
                        if tg[2:5] == pid:
                            rep.violation(tg[2:] + "@second", desc)
                        else:
                            rep.other[tg[2:]] = rep.other.get(tg[2:], 0) + 1
    # attribute the pending violations: is the derivation of the symbolic partial tainted by the named finding KF-1 only?
    if pending or model_bad:
        keys, trees_attr = {}, []

        def need(t, v):
            for route in ("fw", "rv"):
                k = (J.key(t), v, route)
                if k not in keys:
                    keys[k] = len(trees_attr)
                    try:
                        o = J.build_tree(t)
                        un = o._synthetic_partial(v) if route == "fw" else o._synthetic_partials().get(v, S.Constant(0))
                        trees_attr.append(J.expr_to_E(un))
                    except Exception:
                        trees_attr.append(J.Const(0))    # cannot even be built: certainly not the named finding
        for t, v in model_bad:            # the model's own failures first (few): they must be attributable, whatever the cap
            need(t, v)
        for item in pending:
            need(item[2], item[3])
        attr = eng_reduce.kf1_attribution(trees_attr)
        for clause, desc, t, v, rt in pending:
            route = "rv" if rt == "df" else "fw"
            if attr[keys[(J.key(t), v, route)]]:
                counts["kf1_attributed"] += 1
                rep.known("KF-1", KF1_TEXT)
            else:
                if clause[:3] == pid:
                    rep.violation(clause + "@" + rt, desc)
                else:
                    rep.other[clause] = rep.other.get(clause, 0) + 1
        for t, v in model_bad:
            if not (attr[keys[(J.key(t), v, "fw")]] or attr[keys[(J.key(t), v, "rv")]]):
                raise Machinery(f"design: the MODEL's symbolic partial d/d{v} of {J.show(t)} is wrong on the grid and is not the named finding")
    smp = []
    for t, row in list(zip(trees, rows))[:: max(1, len(rows) // 5)][:5]:
        o = row["outs"][0]
        smp.append({"expr": J.show(t), "variable": row["q"][0], "Partial.as_expression": J.show(o["pa"]["e"]) if o["pa"].get("k") == "expr" else o["pa"],
                    "early_Differential.component.as_expression": J.show(o["df"]["e"]) if o["df"].get("k") == "expr" else o["df"],
                    "points": len(row["pts"]), "tlc_tags": verd[row["i"]][0]["pa"]["tags"]})
    rep.cov["samples"] = smp
    rep.assumptions = ["reference: SmSem.DVal / D2Val (dual numbers, derivative term); irrational points via harness/specval.py (tolerance 1e-8)",
                       "KF-1 attribution through TLC's rule identification on the recorded derivation (known_findings.json)"]
    nontriv = len({(J.key(t), v) for t, row in zip(trees, rows) for v in row["q"] if J.size(t) >= 2})
    return ({"evaluations": counts["point_checks"] + counts["second_order_checks"], "distinct_nontrivial": nontriv,
                       "traces_validated_against_impl": len(rows), "expressions": len(rows), **counts,
                       "rule": "cases = (expression, variable) x routes {Partial.as_expression, Derivative.as_expression (early/late), early Differential.component.as_expression} "
                               "x every grid point, plus second-order partials through the public API; universes: D1q, U2 sample, towers, products, explicit n-ary products, "
                               "non-integral constant exponents, seeded random depth-3 trees; non-trivial = tree has >= 2 nodes"})
