"""Growth area: utilities.py / accumulators.py against spec/SmUtil.tla (not one of the 18 properties; run by ./check util and by --selftest)."""
from __future__ import annotations
import itertools, json, os, shutil
import smjson as J, tlcrun
from common import write_ndjson


def run(pid="util", tier="quick", seed=0):
    S = J.sm()
    import smoothmath._private.utilities as U
    import smoothmath._private.accumulators as A
    ev = []
    lists = [list(t) for n in range(0, 5) for t in itertools.product((1, 2, 3), repeat=n)][:: (1 if tier == "thorough" else 2)]
    for s in lists:
        for j in range(-6, 7):
            arg = list(s)
            ev.append({"f": "without", "s": list(s), "j": j, "out": U.list_without_entry_at(arg, j), "s_after": arg})
            arg = list(s)
            ev.append({"f": "updated", "s": list(s), "j": j, "x": 7, "out": U.list_with_updated_entry_at(arg, j, 7), "s_after": arg})
        for t in ([], [1], [2, 3], [3]):
            r = U.first_match_by_predicate(list(s), lambda e: e in t)
            ev.append({"f": "first", "s": list(s), "t": t, "out": list(r) if r is not None else []})
            h, m = U.partition_by_predicate(list(s), lambda e: e in t)
            ev.append({"f": "partition", "s": list(s), "t": t, "out": [h, m]})
        for m in (1, 2, 3):
            g = U.group_by_key(list(s), lambda e: e % m)
            ev.append({"f": "group", "s": list(s), "m": m, "out": [[k, v] for k, v in g.items()]})
    names = ["a", "b", "c"]
    for adds in itertools.product([("a", 1), ("b", 2), ("a", 3), ("c", -1)], repeat=3):
        acc = A.NumericPartialsAccumulator()
        for nm, c in adds:
            acc.add_to(nm if c % 2 else S.Variable(nm), c)
        res = acc.numeric_partials_for(names + ["zz"])
        ev.append({"f": "accumulate", "adds": [list(a) for a in adds], "names": names + ["zz"], "out": [res[n] for n in names + ["zz"]]})
    for n in range(-5, 8):
        ev.append({"f": "parity", "n": n, "even": bool(U.is_even(n)), "odd": bool(U.is_odd(n))})
    for i, e in enumerate(ev, 1):
        e["i"] = i
    work = tlcrun.scratch_dir("util")
    try:
        tf = os.path.join(work, "util.ndjson")
        write_ndjson(tf, ev)
        res = tlcrun.run("SmUtil", "SmUtil.cfg", trace_file=tf, workers=8, timeout=600)
    finally:
        shutil.rmtree(work, ignore_errors=True)
    bad = [(l["i"], l["v"]) for l in res["lines"] if isinstance(l, dict) and l.get("v")]
    print(f"[util] events={len(ev)} judged={len(res['lines'])} disagreements={len(bad)} tlc_states={res.get('distinct')}")
    for i, v in bad[:10]:
        print("  ", v, {k: w for k, w in ev[i - 1].items() if k != "i"})
    return 0 if (not bad and len(res["lines"]) == len(ev) and res["ok"]) else 1
