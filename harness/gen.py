"""Bounded universes (DESIGN.md 1.3).  Deterministic enumeration; random tiers are seeded."""
from __future__ import annotations
import itertools, random
from smjson import (Var, Const, ConstV, Add, Mul, Bin, Un, KUn, BUn, Nary, q, E_, key, size, kids, with_kids,
                    NARY, BIN, UN, KUN, BUN, variables)

X, Y = Var("x"), Var("y")
C = {n: Const(*n) if isinstance(n, tuple) else Const(n) for n in (-2, -1, 0, 1, 2, 3, 10, (1, 2), (-1, 2), (1, 4), (3, 2))}
H = (1, 2)
BASES = [E_, q(2), q(1, 2), q(3), q(10)]
EXP_BASES = BASES + [q(1)]

GQ = [q(-1), q(0), q(1), q(2)]
GT = [q(-2), q(-1), q(0), q(1, 2), q(1), q(2)]
GID = [q(n) for n in range(-3, 4)] + [q(1, 2), q(-1, 2)]


def grid(names, vals):
    names = sorted(names)
    return [dict(zip(names, combo)) for combo in itertools.product(vals, repeat=len(names))]


def leaves(tier="quick"):
    cs = [C[-2], C[-1], C[0], C[H], C[1], C[2]]
    if tier == "thorough":
        cs += [C[3], C[10]]
    return [X, Y] + cs


def d1q():
    """representative ~50-tree subset of D1: leaves + one level of every constructor over leaves,
    slanted to domain boundaries (values 0, 1, negative, undefined on grid points)"""
    c = C
    t = [X, Y, c[0], c[1], c[-1], c[2], c[H], c[-2],
         Add(), Add(X), Add(X, Y), Add(X, c[-1]), Add(X, c[1], Y),
         Mul(), Mul(X), Mul(X, Y), Mul(c[0], X), Mul(X, c[2], Y),
         Bin("Minus", X, Y), Bin("Minus", X, c[1]), Un("Negation", X),
         Bin("Divide", X, Y), Bin("Divide", c[1], X), Bin("Divide", c[0], X),
         Un("Reciprocal", X), Un("Reciprocal", c[0]),
         Bin("Power", X, Y), Bin("Power", c[1], X), Bin("Power", X, c[0]), Bin("Power", c[2], X), Bin("Power", X, c[2]),
         KUn("NthPower", X, 1), KUn("NthPower", X, 2), KUn("NthPower", X, 3),
         KUn("NthRoot", X, 1), KUn("NthRoot", X, 2), KUn("NthRoot", X, 3), KUn("NthRoot", X, 4), KUn("NthRoot", X, 5),
         BUn("Exponential", X, E_), BUn("Exponential", X, q(2)), BUn("Exponential", X, q(1)), BUn("Exponential", X, q(1, 2)),
         BUn("Logarithm", X, E_), BUn("Logarithm", X, q(2)), BUn("Logarithm", X, q(1, 2)), BUn("Logarithm", c[1], q(2)),
         Un("Cosine", X), Un("Sine", X)]
    return t


def d1(tier="thorough"):
    """leaves + one level of every constructor over leaves (systematic)"""
    L = leaves(tier)
    out = list(L)
    out += [Add(), Mul()]
    for a in L:
        out += [Add(a), Mul(a)]
        for op in UN:
            out.append(Un(op, a))
        for k in (1, 2, 3, 4, 5, 6):
            out += [KUn("NthPower", a, k), KUn("NthRoot", a, k)]
        for b in EXP_BASES:
            out.append(BUn("Exponential", a, b))
        for b in BASES:
            out.append(BUn("Logarithm", a, b))
    for a in L:
        for b in L:
            out += [Add(a, b), Mul(a, b)]
            for op in BIN:
                out.append(Bin(op, a, b))
    for a, b, c in [(X, Y, C[1]), (X, C[0], Y), (C[0], X, Y), (X, Y, C[0]), (X, X, X), (C[2], X, C[H])]:
        out += [Add(a, b, c), Mul(a, b, c)]
    return dedup(out)


def dedup(ts):
    seen, out = set(), []
    for t in ts:
        k = key(t)
        if k not in seen:
            seen.add(k)
            out.append(t)
    return out


def over(children, ks=(1, 2, 3, 4, 5, 6), bases=None, exp_bases=None, nary3=None, nary4=None, pairs=None):
    """every constructor applied to children from `children` (U2 when children = D1)"""
    bases = BASES if bases is None else bases
    exp_bases = EXP_BASES if exp_bases is None else exp_bases
    out = [Add(), Mul()]
    for a in children:
        out += [Add(a), Mul(a)]
        for op in UN:
            out.append(Un(op, a))
        for k in ks:
            out += [KUn("NthPower", a, k), KUn("NthRoot", a, k)]
        for b in exp_bases:
            out.append(BUn("Exponential", a, b))
        for b in bases:
            out.append(BUn("Logarithm", a, b))
    prs = pairs if pairs is not None else [(a, b) for a in children for b in children]
    for a, b in prs:
        out += [Add(a, b), Mul(a, b)]
        for op in BIN:
            out.append(Bin(op, a, b))
    for tr in (nary3 or []):
        out += [Add(*tr), Mul(*tr)]
    for tr in (nary4 or []):
        out += [Add(*tr), Mul(*tr)]
    return out


def offenders():
    """sub-expressions that are outside their domain on some grid point, one per domain rule"""
    c = C
    return [Un("Reciprocal", X), Bin("Divide", c[1], X), Bin("Divide", c[0], X), Bin("Divide", Y, X),
            BUn("Logarithm", X, E_), BUn("Logarithm", X, q(2)), BUn("Logarithm", X, q(1, 2)),
            Bin("Power", X, Y), Bin("Power", X, c[0]), Bin("Power", X, c[2]), Bin("Power", X, c[-1]),
            KUn("NthRoot", X, 2), KUn("NthRoot", X, 3), KUn("NthRoot", X, 4), KUn("NthRoot", X, 5),
            Un("Reciprocal", c[0]), BUn("Logarithm", c[0], E_), BUn("Logarithm", c[-1], q(2)), KUn("NthRoot", c[-1], 2),
            KUn("NthRoot", c[0], 3), Bin("Power", c[0], c[0]), Bin("Power", c[-1], c[2]), Bin("Divide", c[0], c[0]),
            Un("Reciprocal", Bin("Minus", X, c[1])), BUn("Logarithm", Add(X, c[1]), E_), KUn("NthRoot", Bin("Minus", X, Y), 2)]


def ones():
    """variable-free (or not) expressions that evaluate to one - bases of Power whose exponent may be skipped"""
    c = C
    return [c[1], Mul(), BUn("Logarithm", c[2], q(2)), KUn("NthPower", c[-1], 6), KUn("NthPower", c[-1], 2), Add(c[1]),
            Bin("Divide", c[2], c[2]), BUn("Exponential", c[0], E_), Un("Cosine", c[0]), KUn("NthRoot", c[1], 3),
            Bin("Power", c[1], c[2]), Bin("Minus", c[2], c[1]), Un("Reciprocal", c[1]), Un("Negation", c[-1]), ConstV({"k": "q", "n": 1, "d": 1, "py": "float"})]


def zeros():
    c = C
    return [c[0], Add(), Mul(c[0], Y), Bin("Minus", Y, Y), Un("Sine", c[0]), BUn("Logarithm", c[1], E_), Bin("Minus", c[1], c[1]), Un("Negation", c[0])]


def parents_of(off, sib=None):
    """`off` placed under every kind of parent and position where a rule could skip it (C02/C07)"""
    c = C
    sib = Y if sib is None else sib
    out = []
    for z in zeros():
        out += [Mul(z, off), Mul(off, z), Mul(sib, z, off), Mul(off, sib, z), Mul(z, off, sib), Mul(sib, off, z),
                Bin("Divide", z, off), Bin("Divide", off, Add(z, c[1]))]
    for o in ones():
        out += [Bin("Power", o, off), Bin("Power", o, Mul(sib, off)), Bin("Power", o, Add(off, sib))]
    out += [Bin("Power", off, c[0]), Bin("Power", Add(off, c[2]), c[0]), Bin("Power", c[2], off), Bin("Power", sib, off), Bin("Power", off, sib),
            Add(off), Add(sib, off), Add(off, sib), Add(c[0], off), Mul(off), Mul(c[1], off), Mul(sib, off),
            Bin("Minus", sib, off), Bin("Minus", off, off), Bin("Divide", off, sib), Bin("Divide", sib, off), Bin("Divide", off, off),
            Un("Negation", off), Un("Reciprocal", off), Un("Cosine", off), Un("Sine", off),
            KUn("NthPower", off, 1), KUn("NthPower", off, 2), KUn("NthPower", off, 3), KUn("NthRoot", off, 1), KUn("NthRoot", off, 3),
            BUn("Exponential", off, E_), BUn("Exponential", off, q(1)), BUn("Exponential", off, q(2)), BUn("Logarithm", off, E_),
            Add(Mul(c[0], off), sib), Mul(Add(c[0]), Add(off, c[1])), Add(Add(), Mul(Mul(c[0], off))),
            Mul(Bin("Minus", sib, sib), off), Bin("Divide", Mul(c[0], sib), off)]
    return out


def boundary_universe():
    """the C02/C07 universe: every offending child under every parent kind"""
    out = []
    for off in offenders():
        out += parents_of(off)
    return dedup(out)


def towers(depth=4):
    """chain-rule towers of unary constructors (C03)"""
    un = [lambda a: Un("Negation", a), lambda a: Un("Reciprocal", a), lambda a: KUn("NthPower", a, 2), lambda a: KUn("NthPower", a, 3),
          lambda a: KUn("NthRoot", a, 2), lambda a: KUn("NthRoot", a, 3), lambda a: BUn("Exponential", a, q(2)),
          lambda a: BUn("Logarithm", a, q(2)), lambda a: BUn("Exponential", a, E_), lambda a: BUn("Logarithm", a, E_),
          lambda a: Un("Sine", a), lambda a: Un("Cosine", a), lambda a: Add(a, C[1]), lambda a: Mul(C[2], a), lambda a: Bin("Minus", C[1], a),
          lambda a: Bin("Divide", C[1], a), lambda a: Bin("Power", a, C[2]), lambda a: Bin("Power", C[2], a), lambda a: Mul(a, Y), lambda a: Bin("Divide", a, Y)]
    out = []
    for combo in itertools.product(range(len(un)), repeat=2):
        out.append(un[combo[0]](un[combo[1]](X)))
    rnd = random.Random(7)
    for _ in range(400):
        t = X
        for _ in range(rnd.choice((3, 4) if depth >= 4 else (3,))):
            t = rnd.choice(un)(t)
        out.append(t)
    return dedup(out)


def products():
    """products of 3-4 non-trivial factors, variables repeated at several depths, zero factors in every position (C03/C04)"""
    f = [X, Y, Add(X, C[1]), Bin("Minus", X, Y), KUn("NthPower", X, 2), Un("Reciprocal", Y), Un("Negation", X), BUn("Exponential", X, q(2)),
         Mul(X, Y), Bin("Divide", X, Y), C[0], C[2], Bin("Minus", X, X), KUn("NthRoot", Y, 3), Un("Sine", X)]
    out = []
    rnd = random.Random(11)
    for tr in itertools.product(f[:9], repeat=3):
        if rnd.random() < 0.35:
            out.append(Mul(*tr))
    for _ in range(300):
        out.append(Mul(*[rnd.choice(f) for _ in range(4)]))
    for _ in range(200):
        out.append(Add(*[rnd.choice(f) for _ in range(rnd.choice((3, 4)))]))
    for _ in range(200):
        a, b, c, d = [rnd.choice(f) for _ in range(4)]
        out += [Bin("Divide", Mul(a, b), Add(c, d)), Bin("Power", Add(KUn("NthPower", a, 2), C[1]), b), Bin("Minus", Mul(a, b, c), Bin("Divide", d, Add(KUn("NthPower", b, 2), C[1])))]
    return dedup(out)


def random_tree(rnd, depth, names=("x", "y"), consts=None, ks=(1, 2, 3, 4, 5, 6)):
    consts = consts or [-2, -1, 0, 1, 2, 3, H]
    if depth <= 0 or rnd.random() < 0.15:
        if rnd.random() < 0.6:
            return Var(rnd.choice(names))
        c = rnd.choice(consts)
        return Const(*c) if isinstance(c, tuple) else Const(c)
    r = rnd.random()
    sub = lambda: random_tree(rnd, depth - 1, names, consts, ks)
    if r < 0.22:
        return Nary(rnd.choice(NARY), *[sub() for _ in range(rnd.choice((0, 1, 2, 2, 2, 3, 3, 4)))])
    if r < 0.5:
        return Bin(rnd.choice(BIN), sub(), sub())
    if r < 0.7:
        return Un(rnd.choice(UN), sub())
    if r < 0.87:
        return KUn(rnd.choice(KUN), sub(), rnd.choice(ks))
    op = rnd.choice(BUN)
    return BUn(op, sub(), rnd.choice(EXP_BASES if op == "Exponential" else BASES))


def random_trees(seed, n, depth=3, **kw):
    rnd = random.Random(seed)
    return [random_tree(rnd, depth, **kw) for _ in range(n)]


# ---------------------------------------------------------------- rule universe (C08 / C11)
def holes():
    c = C
    return [X, Y, Un("Negation", X), Un("Reciprocal", X), c[2], Add(X, Y), Mul(X, Y), KUn("NthPower", X, 2), KUn("NthRoot", X, 2),
            KUn("NthRoot", X, 3), BUn("Exponential", X, q(2)), BUn("Logarithm", X, q(2)), Un("Sine", X), Bin("Power", X, Y)]


def rule_patterns(tier="quick"):
    """every rewrite rule's left-hand pattern with the holes filled, every parameter combination"""
    Hs = holes()
    h0 = Hs if tier == "thorough" else Hs[:8] + [Hs[10], Hs[11]]
    h1 = Hs[:4] + [Hs[7], Hs[8], Hs[10]]          # a smaller set for second/third holes
    c = C
    out = []
    P = out.append
    N = range(1, 7)
    for a in h0:
        for b in h1:
            # Add
            P(Add(Add(a, b), Y)); P(Add(a, Add(b), X)); P(Add(a, Add()))
            P(Add(c[0], a)); P(Add(a, c[0], b)); P(Add(c[1], a, c[2])); P(Add(a, c[H], b, c[-1]))
            for b1, b2 in ((q(2), q(2)), (E_, E_), (q(2), q(3)), (q(1, 2), q(1, 2))):
                P(Add(BUn("Logarithm", a, b1), BUn("Logarithm", b, b2)))
                P(Add(BUn("Logarithm", a, b1), Y, BUn("Logarithm", b, b2), BUn("Logarithm", X, q(3))))
            # Multiply
            P(Mul(Mul(a, b), Y)); P(Mul(a, Mul(b), X)); P(Mul(a, Mul()))
            P(Mul(c[0], a)); P(Mul(a, b, c[0])); P(Mul(c[1], a)); P(Mul(a, c[1], b)); P(Mul(c[2], a, c[H])); P(Mul(a, c[-1], b, c[-1]))
            P(Mul(Un("Negation", a), b)); P(Mul(Un("Negation", a), Un("Negation", b))); P(Mul(Un("Negation", a), Y, Un("Negation", b), Un("Negation", X)))
            P(Mul(Un("Negation", a), Un("Negation", b), Un("Negation", Y), Un("Negation", X)))
            for n in (1, 2, 3, 4):
                for m in (2, 3, 4) if tier == "quick" else (1, 2, 3, 4):
                    P(Mul(KUn("NthPower", a, n), KUn("NthPower", b, m)))
                    P(Mul(KUn("NthRoot", a, n), KUn("NthRoot", b, m)))
            P(Mul(KUn("NthPower", a, 2), Y, KUn("NthPower", b, 2), KUn("NthPower", X, 3)))
            P(Mul(KUn("NthRoot", a, 2), KUn("NthRoot", X, 3), KUn("NthRoot", b, 2)))
            for b1, b2 in ((q(2), q(2)), (E_, E_), (q(2), q(3)), (q(1), q(1))):
                P(Mul(BUn("Exponential", a, b1), BUn("Exponential", b, b2)))
            P(Mul(BUn("Exponential", a, q(2)), Y, BUn("Exponential", b, q(3)), BUn("Exponential", X, q(2))))
            P(Mul(Un("Reciprocal", a), b)); P(Mul(Un("Reciprocal", a), Un("Reciprocal", b)))
            # binary
            P(Bin("Minus", a, b)); P(Bin("Divide", a, b))
            P(Un("Negation", Add(a, b))); P(Un("Reciprocal", Mul(a, b)))
            P(Bin("Power", Bin("Power", a, b), Y)); P(Bin("Power", a, Un("Negation", b))); P(Bin("Power", Un("Reciprocal", a), b))
            for cc in (c[2], c[H], c[3]):
                P(Bin("Power", cc, a))
        # unary patterns with one hole
        P(Un("Negation", Un("Negation", a))); P(Un("Reciprocal", Un("Reciprocal", a))); P(Un("Reciprocal", Un("Negation", a)))
        P(Bin("Power", a, c[1])); P(Bin("Power", a, c[0])); P(Bin("Power", c[1], a)); P(Bin("Power", a, c[2])); P(Bin("Power", a, c[3]))
        P(Bin("Power", a, c[-1])); P(Bin("Power", a, c[H])); P(Bin("Power", c[0], a)); P(Bin("Power", c[-1], a)); P(Bin("Power", a, c[-2]))
        P(Bin("Power", a, ConstV({"k": "q", "n": 2, "d": 1, "py": "float"})))
        for n in N:
            P(KUn("NthPower", a, n)) if n == 1 else None
            P(KUn("NthRoot", a, n)) if n == 1 else None
            P(KUn("NthPower", Un("Negation", a), n)); P(KUn("NthPower", Un("Reciprocal", a), n))
            P(KUn("NthRoot", Un("Negation", a), n)); P(KUn("NthRoot", Un("Reciprocal", a), n))
            P(BUn("Logarithm", KUn("NthPower", a, n), q(2)))
            for b in (E_, q(2), q(1, 2)):
                P(KUn("NthPower", BUn("Exponential", a, b), n)) if n <= 3 else None
            for m in N:
                P(KUn("NthPower", KUn("NthRoot", a, m), n))
                P(KUn("NthRoot", KUn("NthPower", a, m), n))
                if n <= 3 and m <= 3:
                    P(KUn("NthPower", KUn("NthPower", a, m), n))
                    P(KUn("NthRoot", KUn("NthRoot", a, m), n))
        for b1 in (E_, q(2), q(1, 2), q(10)):
            for b2 in (E_, q(2), q(10)):
                P(BUn("Exponential", BUn("Logarithm", a, b1), b2))
                P(BUn("Logarithm", BUn("Exponential", a, b1), b2))
            P(BUn("Exponential", Un("Negation", a), b1))
            P(BUn("Logarithm", Un("Reciprocal", a), b1))
        P(Un("Cosine", Un("Negation", a))); P(Un("Sine", Un("Negation", a)))
    return dedup([t for t in out if t is not None])


def wrappers():
    return [lambda t: Un("Negation", t), lambda t: Un("Reciprocal", t), lambda t: KUn("NthPower", t, 2), lambda t: KUn("NthPower", t, 3),
            lambda t: KUn("NthRoot", t, 2), lambda t: KUn("NthRoot", t, 3), lambda t: BUn("Exponential", t, q(2)), lambda t: BUn("Logarithm", t, q(2)),
            lambda t: Un("Sine", t), lambda t: Un("Cosine", t), lambda t: Add(t, Y), lambda t: Mul(t, Y), lambda t: Mul(C[2], t, Un("Reciprocal", Y)),
            lambda t: Bin("Minus", Y, t), lambda t: Bin("Divide", Y, t), lambda t: Bin("Power", t, Y), lambda t: Bin("Power", Y, t), lambda t: Bin("Power", t, C[2]),
            lambda t: Add(t, t), lambda t: Mul(t, Un("Negation", t)), lambda t: BUn("Exponential", t, E_), lambda t: BUn("Logarithm", t, E_)]


def chains(nmax=20):
    """long nested chains (measured worst cases of the step count)"""
    out = []
    for n in range(2, nmax + 1):
        for mk in (lambda t: Bin("Minus", Y, t), lambda t: Un("Reciprocal", Bin("Divide", Y, t)), lambda t: Un("Negation", Add(t, X)),
                   lambda t: Bin("Divide", t, X), lambda t: Mul(X, t), lambda t: KUn("NthPower", Un("Negation", t), 3), lambda t: Bin("Power", t, C[2]),
                   lambda t: Un("Sine", Un("Negation", t)), lambda t: Add(C[1], t, C[1])):
            t = X
            for _ in range(n):
                t = mk(t)
            if size(t) <= 3 * nmax + 5:
                out.append(t)
    return out


def constant_trees(seed, n):
    """variable-free trees (constant folding, also folding that fails)"""
    return random_trees(seed, n, depth=3, names=("x",), consts=[-2, -1, 0, 1, 2, 3, H]) and \
        [t for t in random_trees(seed, n * 6, depth=3, names=("x",)) if not variables(t)][:n]


# ---------------------------------------------------------------- pools for the state machine (C06 / C09 / C10)
class HeapB:
    """build a DAG heap by hand: every call creates ONE node (one Python object); children are indices"""
    def __init__(self):
        self.h = []

    def _add(self, n):
        self.h.append(n)
        return len(self.h)

    def var(self, x): return self._add({"op": "Variable", "name": x})
    def const(self, n, d=1): return self._add({"op": "Constant", "val": q(n, d)})
    def nary(self, op, *a): return self._add({"op": op, "args": list(a)})
    def bin(self, op, l, r): return self._add({"op": op, "l": l, "r": r})
    def un(self, op, a): return self._add({"op": op, "a": a})
    def kun(self, op, a, k): return self._add({"op": op, "a": a, "k": k})
    def bun(self, op, a, b): return self._add({"op": op, "a": a, "b": b})


def P(**kw):
    return {k: (q(*v) if isinstance(v, tuple) else q(v)) for k, v in kw.items()}


def heap_vars(h, i):
    n = h[i - 1]
    if n["op"] == "Variable":
        return {n["name"]}
    if n["op"] == "Constant":
        return set()
    ks = n["args"] if "args" in n else ([n["l"], n["r"]] if "l" in n else [n["a"]])
    out = set()
    for k in ks:
        out |= heap_vars(h, k)
    return out


def api_pools():
    pools = []

    def pool(name, b, roots, points, vars_, nums=(0, 2, -1), switch=None):
        if switch is None:
            switch = [{"r": roots[-1], "v": "x"}, {"r": roots[0], "v": ("" if len(heap_vars(b.h, roots[0])) <= 1 else "y")}]
        pools.append({"name": name, "heap": b.h, "roots": roots, "points": points, "vars": vars_, "nums": [q(n) for n in nums], "switch": switch})

    # 1. the repository's reuse test, extended: w = x^2 ; z = (w+1)/w ; r = (1/x)*y ; s = z + r
    b = HeapB(); x = b.var("x"); y = b.var("y"); w = b.kun("NthPower", x, 2); one = b.const(1)
    z = b.bin("Divide", b.nary("Add", w, one), w); r = b.nary("Multiply", b.un("Reciprocal", x), y); s = b.nary("Add", z, r)
    pool("reuse", b, [w, z, s], [P(x=2, y=1), P(x=-1, y=3), P(x=0, y=1), P(x=(1, 2), y=2)], ["x", "y", "zz"])
    # 2. Logarithm / Reciprocal under shared nodes: calls that fail half-way
    b = HeapB(); x = b.var("x"); sq = b.nary("Multiply", x, x); m = b.bin("Minus", sq, b.const(2)); u = b.bun("Logarithm", m, q(2)); v = b.nary("Multiply", m, m)
    t = b.nary("Add", sq, b.un("Reciprocal", m))
    pool("halfway", b, [sq, u, v, t], [P(x=2), P(x=1), P(x=0), P(x=-2)], ["x", "zz"], switch=[{"r": u, "v": ""}, {"r": t, "v": "x"}])
    # 3. Power with a base that evaluates to one; undefined exponent
    b = HeapB(); x = b.var("x"); rc = b.un("Reciprocal", x); p1 = b.bin("Power", b.const(1), rc); t = b.nary("Add", p1, x)
    p2 = b.bin("Power", b.nary("Multiply"), b.bun("Logarithm", x, q(2)))
    pool("baseone", b, [p1, t, p2], [P(x=0), P(x=2), P(x=-1)], ["x", "zz"])
    # 4. a quotient whose symbolic partials need many rewrite steps, two variables
    b = HeapB(); x = b.var("x"); y = b.var("y"); pr = b.nary("Multiply", x, y); sm = b.nary("Add", x, y); z = b.bin("Divide", pr, sm); z2 = b.kun("NthPower", z, 2)
    pool("quotient", b, [z, z2, sm], [P(x=1, y=1), P(x=2, y=-2), P(x=0, y=2), P(x=-1, y=(1, 2)), P(x=1)], ["x", "y"])
    # 5. variable-free parts (constant folding, failing folds) next to a variable
    b = HeapB(); x = b.var("x"); c = b.nary("Add", b.const(2), b.const(3)); d = b.un("Reciprocal", b.bin("Minus", c, b.const(5))); e = b.nary("Multiply", c, x)
    f = b.nary("Add", e, d); g = b.bin("Divide", e, c)
    pool("closed", b, [c, e, f, g, d], [P(x=1), P(x=0), P(x=-2)], ["x", "zz"])
    # 6. structurally equal but DISTINCT children, and an n-ary node whose later sibling fails after an earlier composite was cached
    b = HeapB(); x = b.var("x"); y = b.var("y"); e1 = b.bun("Exponential", x, q(2)); e2 = b.bun("Exponential", x, q(2)); a = b.nary("Add", e1, e2)
    mm = b.nary("Multiply", x, x); lg = b.bun("Logarithm", y, q(2)); zz = b.nary("Add", mm, lg); ww = b.nary("Multiply", mm, b.un("Reciprocal", y))
    pool("siblings", b, [a, zz, ww], [P(x=0, y=1), P(x=1, y=2), P(x=3, y=0), P(x=2, y=1)], ["x", "y"])
    # 7. roots (even / odd) and a sum of a variable with an undefined term that does not mention it
    b = HeapB(); x = b.var("x"); y = b.var("y"); s2 = b.kun("NthRoot", x, 2); s3 = b.kun("NthRoot", x, 3); tt = b.nary("Add", x, b.bun("Logarithm", y, q(2)))
    qq = b.nary("Multiply", s3, s3, s3)
    pool("roots", b, [s2, qq, tt], [P(x=4, y=1), P(x=-8, y=2), P(x=0, y=1), P(x=1, y=-1), P(x=1, y=0)], ["x", "y"])
    # 9. Power whose base CONTAINS variables and evaluates to exactly one at a point
    b = HeapB(); x = b.var("x"); y = b.var("y"); pxy = b.bin("Power", x, y); lin = b.bin("Minus", b.nary("Multiply", b.const(2), x), b.const(1)); pl = b.bin("Power", lin, x)
    sm = b.nary("Add", pxy, b.nary("Multiply", b.const(5), x))
    pool("powerone", b, [pxy, pl, sm], [P(x=1, y=3), P(x=2, y=2), P(x=1, y=-1), P(x=0, y=1)], ["x", "y"])
    # 10. an odd number (3) of directly negated factors in one product
    b = HeapB(); x = b.var("x"); y = b.var("y"); w = b.var("w"); m3 = b.nary("Multiply", b.un("Negation", x), b.un("Negation", y), b.un("Negation", w), y)
    pool("negations", b, [m3], [P(x=2, y=3, w=5), P(x=-1, y=1, w=0)], ["x", "y", "w"], switch=[{"r": m3, "v": "x"}])
    # 11. twins that differ only in Constant(-1) / Constant(-2) (equal hashes in CPython) over a SHARED sub-expression
    b = HeapB(); x = b.var("x"); u3 = b.kun("NthPower", x, 3); f1 = b.nary("Multiply", b.const(-1), u3); f2 = b.nary("Multiply", b.const(-2), u3)
    pool("twins", b, [f1, f2], [P(x=2), P(x=-1), P(x=-2)], ["x"], nums=(2, -1, -2), switch=[{"r": f2, "v": "x"}, {"r": f2, "v": ""}])
    # 12. unary nodes over operands that the normal-form pass WRITES differently (x + (-y) => x - y ; x * (1/y) => x / y), used in a product
    b = HeapB(); x = b.var("x"); y = b.var("y"); w = b.var("w"); a_ = b.nary("Add", x, b.un("Negation", y)); p3 = b.kun("NthPower", a_, 3); z = b.nary("Multiply", p3, w)
    q_ = b.un("Negation", b.nary("Multiply", x, b.un("Reciprocal", y)))
    pool("resugar", b, [p3, z, q_], [P(x=2, y=1, w=3), P(x=1, y=0, w=1)], ["x", "y", "w"], switch=[{"r": z, "v": "w"}])
    # 8. a user-built n-ary node with a child whose simplification ENLARGES the domain (Power(x, 2) => NthPower(x, 2)), shared into a
    #    product: if any simplification rewrote the user's own node in place, evaluation would stop raising where it must
    b = HeapB(); x = b.var("x"); y = b.var("y"); w = b.var("w"); pw = b.bin("Power", x, b.const(2)); s = b.nary("Add", pw, y); z = b.nary("Multiply", s, w)
    ad = b.nary("Add", b.nary("Add", x, y), w); ez = b.bun("Exponential", ad, q(2))
    pool("inplace", b, [s, z, ez], [P(x=-3, y=1, w=2), P(x=3, y=1, w=2), P(x=0, y=0, w=1)], ["x", "y", "w"], switch=[{"r": z, "v": "w"}, {"r": ez, "v": "x"}])
    return pools
