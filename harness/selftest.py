"""./check <ID> --selftest : demonstrates that the specification is BOUND to the code and not vacuous.
 1. mutant constants: every mechanism the model contains is needed - each *_mut_* configuration must produce a TLC counterexample;
 2. corrupted traces: a valid recorded trace with one field flipped / two events swapped must be rejected by the trace spec;
 3. the named finding: the model with rule T2 as the code has it fails RoutesAgree/RefOutcome on the kf1 pool.
Writes evidence/selftest.json; exit 0 iff every expectation is met."""
from __future__ import annotations
import copy, glob, json, os, random, shutil, time
import gen, smjson as J, tlcrun, common, eng_api, eng_eval, eng_diff
from common import write_ndjson


def run(pid="all"):
    t0 = time.time()
    work = tlcrun.scratch_dir("self")
    results = []

    def expect(name, ok, detail=""):
        results.append({"expectation": name, "met": bool(ok), "detail": detail})
        print(("ok   " if ok else "FAIL ") + name + ("  " + detail if detail else ""))
    try:
        pools = gen.api_pools()
        # 1. mutant constants of the state machine
        for cfg in sorted(glob.glob(os.path.join(tlcrun.SPEC, "SmoothmathMC_mut_*.cfg"))):
            mut = os.path.basename(cfg)[len("SmoothmathMC_mut_"):-4]
            hit = None
            for pool in (pools[0], pools[2], pools[1]):
                res = eng_api.model_check(pool, work, cfg=os.path.basename(cfg), expect_violation=True)
                if res["violated"]:
                    hit = (pool["name"], res["violated"], res.get("depth"))
                    break
            expect(f"SmoothmathMC mutant configuration {mut} yields a counterexample", hit is not None, str(hit))
        for mut in ("KeysFromSorted", "FoldOnlyOnce", "ChildrenAsSet"):
            res = tlcrun.run("Determinism", f"Determinism_mut_{mut}.cfg", workers=4, timeout=300, expect_violation=True)
            expect(f"Determinism with {mut} = TRUE violates OrderInsensitive", bool(res["violated"]), str(res["violated"]))
        tsf = os.path.join(work, "rts.ndjson")
        write_ndjson(tsf, [{"t": t} for t in gen.rule_patterns("quick")[::9] if J.size(t) <= 20])
        res = tlcrun.run("ReduceTS", "ReduceTS_mut_PushNegationInward.cfg", trace_file=tsf, workers=8, timeout=600, expect_violation=True)
        expect("ReduceTS with a rule that pushes Negation back inside Reciprocal (a loop) violates Bounded", bool(res["violated"]), str(res["violated"]))
        res = tlcrun.run("ReduceTS", "ReduceTS_mut_loop_liveness.cfg", trace_file=tsf, workers=8, timeout=600, expect_violation=True)
        expect("... and, with the step counter hidden, the liveness property Terminates (a lasso)", bool(res["violated"]), str(res["violated"]))
        res = eng_api.model_check(eng_api.kf1_pool(), work, cfg="Smoothmath_each.cfg", expect_violation=True)
        expect("the model with rewrite rule T2 as implemented (KF-1) fails on the kf1 pool", bool(res["violated"]), str(res["violated"]))
        # operational model of differentiation with the D2 short-cut as it was before the fix: design-level counterexample
        cases = [{"tree": J.Bin("Power", J.Const(1), J.Un("Reciprocal", gen.X)), "share": False, "pts": [gen.P(x=0), gen.P(x=2)]}]
        rows = eng_diff.run_impl(cases)
        tf = os.path.join(work, "d2.ndjson")
        write_ndjson(tf, rows)
        cfg = os.path.join(tlcrun.SPEC, "DiffCases_mut_D2.cfg")
        open(cfg, "w").write(open(os.path.join(tlcrun.SPEC, "DiffCases.cfg")).read().replace("PowerShortCircuitChecksExponent = TRUE", "PowerShortCircuitChecksExponent = FALSE"))
        try:
            res = tlcrun.run("DiffCases", "DiffCases_mut_D2.cfg", trace_file=tf, timeout=300, expect_violation=True)
        finally:
            os.remove(cfg)
        expect("DiffCases with PowerShortCircuitChecksExponent = FALSE (defect D2 as it was) violates the design invariant", bool(res["violated"]), str(res["violated"]))
        # 2. corrupted traces - evaluation
        rnd = random.Random(1)
        cases = [{"tree": t, "share": False, "mode": "point", "pts": gen.grid(J.variables(t), gen.GQ)} for t in gen.d1q()[8:40]]
        rows = eng_eval.run_impl(cases)
        tf = os.path.join(work, "ok.ndjson")
        write_ndjson(tf, rows)
        res = tlcrun.run("EvalCases", "EvalCases.cfg", trace_file=tf, timeout=300)
        clean = sum(1 for l in res["lines"] for v in l["v"] for t in v if t.startswith("V:"))
        expect("the recorded evaluation trace is accepted as it is", clean == 0, f"{clean} violation tags")
        bad = copy.deepcopy(rows)
        flipped = 0
        for r in bad:
            for o in r["outs"]:
                if o["k"] == "q" and flipped < 1:
                    o["n"] += o["d"]
                    flipped += 1
        tf2 = os.path.join(work, "flip.ndjson")
        write_ndjson(tf2, bad)
        res = tlcrun.run("EvalCases", "EvalCases.cfg", trace_file=tf2, timeout=300)
        n = sum(1 for l in res["lines"] for v in l["v"] for t in v if t.startswith("V:C01"))
        expect("one flipped numeric outcome in the evaluation trace is rejected (exactly one C01 tag)", n == 1, f"{n} tags")
        bad = copy.deepcopy(rows)
        done = 0
        for r in bad:
            for j, o in enumerate(r["outs"]):
                if o["k"] == "DomainError" and done < 1:
                    r["outs"][j] = {"k": "q", "n": 0, "d": 1, "exact": True, "py": "int", "repr": "0"}
                    done += 1
        write_ndjson(tf2, bad)
        res = tlcrun.run("EvalCases", "EvalCases.cfg", trace_file=tf2, timeout=300)
        n = sum(1 for l in res["lines"] for v in l["v"] for t in v if t.startswith("V:C02"))
        expect("a DomainError replaced by a number is rejected (C02 tag)", n == 1, f"{n} tags")
        # corrupted traces - behaviours of the state machine
        pool = pools[0]
        seqs = eng_api.directed(pool, rnd, 10, "quick")[:60]
        traces = [eng_api.replay_behaviour(pool, s, i) for i, s in enumerate(seqs, 1)]
        pf = os.path.join(work, "pool.json")
        json.dump(pool, open(pf, "w"))
        tf3 = os.path.join(work, "api_ok.ndjson")
        write_ndjson(tf3, traces)
        res = tlcrun.run("ApiTrace", "ApiTrace.cfg", trace_file=tf3, env_extra={"POOL_FILE": pf}, timeout=600)
        clean = sum(1 for l in res["lines"] for ev in l["v"]["ev"] for t in ev if t.startswith("V:"))
        expect("the recorded behaviours are accepted as they are", clean == 0, f"{clean} violation tags")
        bad = copy.deepcopy(traces)
        # swap the outcomes of two events of one history (a "swapped events" corruption the spec must notice)
        sw = 0
        for t in bad:
            idx = [j for j, o in enumerate(t["outs"]) if o["k"] in ("q", "DomainError")]
            for a in idx:
                for b in idx:
                    if sw == 0 and a < b and t["outs"][a].get("repr", t["outs"][a]["k"]) != t["outs"][b].get("repr", t["outs"][b]["k"]) \
                            and t["calls"][a]["a"] in ("at", "pat", "lcomp") and t["calls"][b]["a"] in ("at", "pat", "lcomp"):
                        t["outs"][a], t["outs"][b] = t["outs"][b], t["outs"][a]
                        sw = 1
        tf4 = os.path.join(work, "api_swap.ndjson")
        write_ndjson(tf4, bad)
        res = tlcrun.run("ApiTrace", "ApiTrace.cfg", trace_file=tf4, env_extra={"POOL_FILE": pf}, timeout=600)
        n = sum(1 for l in res["lines"] for ev in l["v"]["ev"] for t in ev if t.startswith("V:C09"))
        expect("two swapped outcomes inside one recorded history are rejected (C09 tags)", n >= 1, f"{n} tags")
        bad = copy.deepcopy(traces)
        bad[0]["snaps"][0][-1] = dict(bad[0]["snaps"][0][-1], op="Multiply") if bad[0]["snaps"][0][-1]["op"] == "Add" else dict(bad[0]["snaps"][0][-1], op="Add", args=[1])
        write_ndjson(tf4, bad)
        res = tlcrun.run("ApiTrace", "ApiTrace.cfg", trace_file=tf4, env_extra={"POOL_FILE": pf}, timeout=600)
        n = sum(1 for l in res["lines"] for ev in l["v"]["ev"] for t in ev if t.startswith("V:C10"))
        expect("a pool snapshot with one changed node is rejected (C10 tag)", n == 1, f"{n} tags")
    finally:
        shutil.rmtree(work, ignore_errors=True)
    ok = all(r["met"] for r in results)
    os.makedirs(common.EVID, exist_ok=True)
    json.dump({"selftest": results, "all_met": ok, "wall_s": round(time.time() - t0, 1)}, open(os.path.join(common.EVID, "selftest.json"), "w"), indent=1)
    print(f"selftest: {sum(r['met'] for r in results)}/{len(results)} expectations met in {round(time.time() - t0, 1)} s")
    return 0 if ok else 1
