"""Data model shared by spec, traces and harness (DESIGN.md 1.2).

E (expression tree)  : dicts  {"op": ..., ...}
V (number literal)   : {"k":"q","n":..,"d":..} | {"k":"e"} | {"k":"f","repr":".."}
heap                 : list of nodes, children are 1-based indices of EARLIER nodes, root = last
outcome              : what a call on the real library did, see outcome_of()

The real library is imported from SMOOTHMATH_SRC (default /repo/src) in this interpreter;
no installed copy is used and no bytecode is written into the repository.
"""
from __future__ import annotations
import math, os, signal, sys
from fractions import Fraction

SRC = os.environ.get("SMOOTHMATH_SRC", "/repo/src")
MAXM = 30000

_sm = None


def sm():
    """import the library under test (once)"""
    global _sm
    if _sm is None:
        sys.dont_write_bytecode = True
        if SRC not in sys.path:
            sys.path.insert(0, SRC)
        import smoothmath
        import smoothmath.expression as ex
        assert os.path.realpath(smoothmath.__file__).startswith(os.path.realpath(SRC)), smoothmath.__file__

        class NS:
            pass
        ns = NS()
        ns.sm = smoothmath
        ns.ex = ex
        for name in ex.__all__:
            setattr(ns, name, getattr(ex, name))
        for name in smoothmath.__all__:
            setattr(ns, name, getattr(smoothmath, name))
        _sm = ns
    return _sm


# ---------------------------------------------------------------- values
def q(n, d=1):
    f = Fraction(n, d)
    return {"k": "q", "n": f.numerator, "d": f.denominator}


E_ = {"k": "e"}


def v_to_py(v):
    """V -> the Python number handed to the library (ints stay ints, other rationals become floats)"""
    if v["k"] == "q":
        if v["d"] == 1:
            return float(v["n"]) if v.get("py") == "float" else v["n"]
        return v["n"] / v["d"]
    if v["k"] == "e":
        return math.e
    if v["k"] == "f":
        return float(v["repr"])
    raise ValueError(v)


def v_to_fraction(v):
    if v["k"] == "q":
        return Fraction(v["n"], v["d"])
    return None


def alpha(x):
    """abstraction of a concrete Python number to a spec value / outcome (DESIGN.md 1.2)"""
    if isinstance(x, bool) or not isinstance(x, (int, float)):
        if isinstance(x, complex):
            return {"k": "bad", "t": "complex"}
        return {"k": "bad", "t": "nonnumber_" + type(x).__name__}
    if isinstance(x, float):
        if math.isnan(x):
            return {"k": "bad", "t": "nan"}
        if math.isinf(x):
            return {"k": "bad", "t": "inf"}
    py = "int" if isinstance(x, int) else "float"
    if isinstance(x, int):
        if abs(x) <= MAXM:
            return {"k": "q", "n": x, "d": 1, "exact": True, "py": py, "repr": repr(x)}
        return {"k": "f", "repr": repr(x), "py": py}
    fx = Fraction(x)
    cand = fx.limit_denominator(MAXM)
    if abs(cand.numerator) <= MAXM and abs(fx - cand) <= Fraction(1, 10**10) * max(1, abs(fx)):
        return {"k": "q", "n": cand.numerator, "d": cand.denominator, "exact": fx == cand, "py": py, "repr": repr(x)}
    return {"k": "f", "repr": repr(x), "py": py}


def number_to_v(x):
    a = alpha(x)
    if a["k"] == "q" and a["exact"]:
        return {"k": "q", "n": a["n"], "d": a["d"]}
    if isinstance(x, float) and x == math.e:
        return {"k": "e"}
    return {"k": "f", "repr": repr(x)}


# ---------------------------------------------------------------- trees / heaps
NARY = ("Add", "Multiply")
BIN = ("Minus", "Divide", "Power")
UN = ("Negation", "Reciprocal", "Cosine", "Sine")
KUN = ("NthPower", "NthRoot")
BUN = ("Exponential", "Logarithm")


def Var(name): return {"op": "Variable", "name": name}
def Const(n, d=1): return {"op": "Constant", "val": q(n, d)}
def ConstV(v): return {"op": "Constant", "val": v}
def Nary(op, *args): return {"op": op, "args": list(args)}
def Add(*args): return Nary("Add", *args)
def Mul(*args): return Nary("Multiply", *args)
def Bin(op, l, r): return {"op": op, "l": l, "r": r}
def Un(op, a): return {"op": op, "a": a}
def KUn(op, a, k): return {"op": op, "a": a, "k": k}
def BUn(op, a, b): return {"op": op, "a": a, "b": b}


def kids(e):
    op = e["op"]
    if op in NARY:
        return e["args"]
    if op in BIN:
        return [e["l"], e["r"]]
    if op in ("Variable", "Constant"):
        return []
    return [e["a"]]


def with_kids(e, ks):
    op = e["op"]
    if op in NARY:
        return {"op": op, "args": list(ks)}
    if op in BIN:
        return {"op": op, "l": ks[0], "r": ks[1]}
    if op in ("Variable", "Constant"):
        return dict(e)
    r = dict(e)
    r["a"] = ks[0]
    return r


def size(e):
    return 1 + sum(size(c) for c in kids(e))


def depth(e):
    return 1 + max([depth(c) for c in kids(e)], default=0)


def variables(e):
    if e["op"] == "Variable":
        return {e["name"]}
    s = set()
    for c in kids(e):
        s |= variables(c)
    return s


def key(e):
    """hashable structural key"""
    op = e["op"]
    if op == "Variable":
        return (op, e["name"])
    if op == "Constant":
        v = e["val"]
        return (op, v["k"], v.get("n"), v.get("d"), v.get("repr"), v.get("py"))
    if op in KUN:
        return (op, e["k"], key(e["a"]))
    if op in BUN:
        b = e["b"]
        return (op, b["k"], b.get("n"), b.get("d"), b.get("repr"), key(e["a"]))
    return (op,) + tuple(key(c) for c in kids(e))


def tree_to_heap(e, share=False):
    """flatten a tree; share=True gives ONE node (one Python object) per distinct sub-tree (a DAG)"""
    heap, memo = [], {}

    def go(t):
        if share:
            k = key(t)
            if k in memo:
                return memo[k]
        idx = [go(c) for c in kids(t)]
        op = t["op"]
        if op in NARY:
            n = {"op": op, "args": idx}
        elif op in BIN:
            n = {"op": op, "l": idx[0], "r": idx[1]}
        elif op in ("Variable", "Constant"):
            n = dict(t)
        else:
            n = dict(t)
            n["a"] = idx[0]
        heap.append(n)
        if share:
            memo[key(t)] = len(heap)
        return len(heap)
    go(e)
    return heap


def heap_to_tree(heap, i=None):
    if i is None:
        i = len(heap)
    n = heap[i - 1]
    op = n["op"]
    if op in NARY:
        return {"op": op, "args": [heap_to_tree(heap, j) for j in n["args"]]}
    if op in BIN:
        return {"op": op, "l": heap_to_tree(heap, n["l"]), "r": heap_to_tree(heap, n["r"])}
    if op in ("Variable", "Constant"):
        return dict(n)
    r = dict(n)
    r["a"] = heap_to_tree(heap, n["a"])
    return r


def build_heap(heap, names=None):
    """heap -> list of library objects, ONE object per heap index, built with the public constructors.
    names maps spec tokens to real variable spellings."""
    S = sm()
    objs = []
    for n in heap:
        op = n["op"]
        if op == "Variable":
            nm = n["name"]
            objs.append(S.Variable(names.get(nm, nm) if names else nm))
        elif op == "Constant":
            objs.append(S.Constant(v_to_py(n["val"])))
        elif op in NARY:
            objs.append(getattr(S, op)(*[objs[j - 1] for j in n["args"]]))
        elif op in BIN:
            objs.append(getattr(S, op)(objs[n["l"] - 1], objs[n["r"] - 1]))
        elif op in UN:
            objs.append(getattr(S, op)(objs[n["a"] - 1]))
        elif op in KUN:
            objs.append(getattr(S, op)(objs[n["a"] - 1], n=n["k"]))
        elif op in BUN:
            b = n["b"]
            if b["k"] == "e" and not n.get("explicit_base"):
                objs.append(getattr(S, op)(objs[n["a"] - 1]))
            else:
                objs.append(getattr(S, op)(objs[n["a"] - 1], base=v_to_py(b)))
        else:
            raise ValueError(op)
    return objs


def build_tree(e, names=None):
    return build_heap(tree_to_heap(e), names)[-1]


def build_point(p, names=None):
    S = sm()
    return S.Point(**{(names.get(k, k) if names else k): v_to_py(v) for k, v in p.items()})


def expr_to_E(obj, names_inv=None):
    """library expression -> E, from attributes (never from repr)"""
    cn = type(obj).__name__
    if cn == "Variable":
        nm = obj.name
        return {"op": "Variable", "name": names_inv.get(nm, nm) if names_inv else nm}
    if cn == "Constant":
        return {"op": "Constant", "val": number_to_v(obj.value)}
    if cn in NARY:
        return {"op": cn, "args": [expr_to_E(c, names_inv) for c in obj._inners]}
    if cn in BIN:
        return {"op": cn, "l": expr_to_E(obj._left, names_inv), "r": expr_to_E(obj._right, names_inv)}
    if cn in UN:
        return {"op": cn, "a": expr_to_E(obj._inner, names_inv)}
    if cn in KUN:
        return {"op": cn, "a": expr_to_E(obj._inner, names_inv), "k": obj.n}
    if cn in BUN:
        return {"op": cn, "a": expr_to_E(obj._inner, names_inv), "b": number_to_v(obj.base)}
    raise TypeError(f"not an expression: {obj!r}")


# ---------------------------------------------------------------- outcomes
class CallTimeout(Exception):
    pass


def _alarm(signum, frame):
    raise CallTimeout()


def outcome_of(fn, conv=alpha, timeout=4):
    """run fn() on the real library; encode what happened (normal AND error path)"""
    S = sm()
    old = signal.signal(signal.SIGALRM, _alarm)
    signal.alarm(timeout)
    try:
        r = fn()
        signal.alarm(0)
        return conv(r)
    except CallTimeout:
        return {"k": "timeout"}
    except S.DomainError:
        signal.alarm(0)
        return {"k": "DomainError"}
    except S.CoordinateMissing:
        signal.alarm(0)
        return {"k": "CoordinateMissing"}
    except MemoryError:
        signal.alarm(0)
        return {"k": "timeout"}
    except RecursionError:
        signal.alarm(0)
        return {"k": "PyError", "t": "RecursionError"}
    except Exception as exc:  # noqa
        signal.alarm(0)
        return {"k": "PyError", "t": type(exc).__name__}
    finally:
        signal.alarm(0)
        signal.signal(signal.SIGALRM, old)


def show(e):
    """compact human-readable rendering of E (for evidence samples and replay files)"""
    op = e["op"]
    if op == "Variable":
        return e["name"]
    if op == "Constant":
        v = e["val"]
        if v["k"] == "q":
            return str(v["n"]) if v["d"] == 1 else f"{v['n']}/{v['d']}"
        return "e" if v["k"] == "e" else v.get("repr", "?")
    if op in KUN:
        return f"{op}({show(e['a'])},{e['k']})"
    if op in BUN:
        b = e["b"]
        bs = "e" if b["k"] == "e" else (str(b["n"]) if b.get("d") == 1 else f"{b.get('n')}/{b.get('d')}" if b["k"] == "q" else b.get("repr"))
        return f"{op}({show(e['a'])},b={bs})"
    return f"{op}({','.join(show(c) for c in kids(e))})"


def show_point(p):
    return "{" + ",".join(f"{k}={v['n']}" + (f"/{v['d']}" if v.get('d', 1) != 1 else "") for k, v in sorted(p.items())) + "}"
