"""The float layer (DESIGN.md 4.4): a transliteration of SmSem.Val / SmSem.DV to Python, exact
(Fraction) wherever the spec is exact and float where the spec says "nx"/"oor"/"unk".

It is consulted only for cases TLC cannot decide, and is itself bound to the spec on every run:
its result for every case is fed to TLC next to the implementation's outcome and TLC checks that
it agrees with Val/DVal wherever those are exact ("SV:mismatch" = machinery failure, exit 2).
No smoothmath import here.
"""
from __future__ import annotations
import math
from fractions import Fraction

EPS_BOUNDARY = 1e-6


class Undef(Exception):
    pass


class IllCond(Exception):
    """a domain-relevant float intermediate is too close to a boundary, or magnitudes leave the range"""


class Ctx:
    def __init__(self):
        self.maxmag = 1.0

    def see(self, x, leaf=False):
        try:
            m = abs(float(x))
        except OverflowError:
            raise IllCond("overflow")
        if math.isinf(m) or math.isnan(m):
            raise IllCond("overflow")
        if m > 1e150:
            raise IllCond("huge")
        if not leaf and ((0 < m < 1e-290) or (m == 0.0 and isinstance(x, Fraction) and x != 0)):
            raise IllCond("tiny")          # an intermediate that underflows (or nearly): excluded like overflow
        if m > self.maxmag:
            self.maxmag = m
        return x


TAINT = False      # set per case: some input (coordinate / constant / base) is a float that is not a small rational


def isx(x):
    return isinstance(x, Fraction)


def _d(x):
    """a DERIVED quantity of a case with genuine float inputs: the implementation computes it inexactly, so it is carried as
    a float here too (and the near-boundary rule applies to it); leaves stay exact (a float given as input IS that number)"""
    if TAINT and isinstance(x, Fraction) and x != 0:
        try:
            return float(x)
        except OverflowError:
            raise IllCond("overflow")
    return x


def lit(v):
    if v["k"] == "q":
        return Fraction(v["n"], v["d"])
    if v["k"] == "e":
        return math.e
    # a float GIVEN as input (coordinate, constant, base) is an exact dyadic rational: keep it exact, so that only genuinely
    # inexact intermediates (results of transcendental functions) count as "too close to a boundary to judge"
    return Fraction(float(v["repr"]))


def _shrink(x):
    if isx(x) and (x.numerator.bit_length() > 2400 or x.denominator.bit_length() > 2400):
        return float(x)
    return x


def add(a, b):
    if isx(a) and isx(b):
        return _d(_shrink(a + b))
    return float(a) + float(b)


def mul(a, b):
    if isx(a) and isx(b):
        return _d(_shrink(a * b))
    if (isx(a) and a == 0) or (isx(b) and b == 0):
        return Fraction(0)
    return float(a) * float(b)


def neg(a):
    return -a


def sign(a):
    """sign of a domain-relevant quantity; floats near 0 are ill-conditioned"""
    if isx(a):
        return (a > 0) - (a < 0)
    if abs(a) < EPS_BOUNDARY:
        raise IllCond("near boundary")
    return 1 if a > 0 else -1


def inv(a):
    s = sign(a)
    if s == 0:
        raise Undef()
    if isx(a):
        return _d(1 / a)
    return 1.0 / a


def div(a, b):
    """a / b as ONE operation (the tree read as real arithmetic has no reciprocal intermediate)"""
    s = sign(b)
    if s == 0:
        raise Undef()
    if isx(a) and isx(b):
        return _d(_shrink(a / b))
    if isx(a) and a == 0:
        return Fraction(0)
    try:
        return float(a) / float(b)
    except (OverflowError, ZeroDivisionError):
        raise IllCond("overflow")


def ipow(a, k):
    if k == 0:
        return Fraction(1)
    if isx(a):
        if a != 0 and abs(k) * max(a.numerator.bit_length(), a.denominator.bit_length()) > 2400:
            try:
                return float(a) ** k
            except OverflowError:
                raise IllCond("overflow")
        return _d(a ** k)
    try:
        return float(a) ** k
    except OverflowError:
        raise IllCond("overflow")


def _iroot(m, k):
    if m < 0:
        return None
    if k > 200:                      # c ** k for a huge k would build an astronomically large integer
        return m if m in (0, 1) else None
    r = round(m ** (1.0 / k)) if m < 10**300 else None
    if r is None:
        return None
    for c in (r - 1, r, r + 1):
        if c >= 0 and c ** k == m:
            return c
    return None


def root(a, k):
    if k == 1:
        return a
    s = sign(a)
    if s == 0:
        raise Undef()
    if s < 0 and k % 2 == 0:
        raise Undef()
    if isx(a):
        rn, rd = _iroot(abs(a.numerator), k), _iroot(a.denominator, k)
        if rn is not None and rd is not None:
            return _d(Fraction(s * rn, rd))
    x = abs(float(a)) ** (1.0 / k)
    return x if s > 0 else -x


def expb(b, a):
    """b ** a, b > 0 (Fraction or float)"""
    if isx(a) and a == 0:
        return Fraction(1)
    if isx(b) and b == 1:
        return Fraction(1)
    if isx(b) and isx(a):
        r = root(b, a.denominator)
        if isx(r):
            if abs(a.numerator) * max(r.numerator.bit_length(), r.denominator.bit_length()) <= 1500:
                return _d(r ** a.numerator)
    try:
        return float(b) ** float(a)
    except OverflowError:
        raise IllCond("overflow")


def logb(b, a):
    s = sign(a)
    if s <= 0:
        raise Undef()
    if isx(a) and a == 1:
        return Fraction(0)
    if isx(a) and isx(b):
        for k in range(-14, 15):
            if k != 0:
                if b ** k == a:
                    return Fraction(k)
        for k in range(-14, 15):
            if k != 0 and a ** k == b:
                return Fraction(1, k)
    fa = float(a)
    if isinstance(b, float) and b == math.e:
        return math.log(fa)
    return math.log(fa) / math.log(float(b))


def ln(b):
    if isx(b) and b == 1:
        return Fraction(0)
    if isinstance(b, float) and b == math.e:
        return Fraction(1)
    return math.log(float(b))


def powq(a, b):
    if sign(a) <= 0:
        raise Undef()
    return expb(a, b)


def _trig_arg(a):
    f = float(a)
    if abs(f) > 1e5:
        # sin / cos of a huge argument: the rounding of the argument alone moves the result by |a| * 1e-16 - ill-conditioned
        raise IllCond("trig of a huge argument")
    return f


def sin(a):
    if isx(a) and a == 0:
        return Fraction(0)
    return math.sin(_trig_arg(a))


def cos(a):
    if isx(a) and a == 0:
        return Fraction(1)
    return math.cos(_trig_arg(a))


def dv(e, v, p, cx):
    """dual number (value, d/dv value); raises Undef / IllCond"""
    op = e["op"]
    S = cx.see
    if op == "Variable":
        return S(lit(p[e["name"]]), True), Fraction(1 if e["name"] == v else 0)
    if op == "Constant":
        return S(lit(e["val"]), True), Fraction(0)
    if op == "Add":
        ds = [dv(c, v, p, cx) for c in e["args"]]
        a, d = Fraction(0), Fraction(0)
        for x, y in ds:
            a, d = S(add(a, x)), S(add(d, y))
        return a, d
    if op == "Multiply":
        ds = [dv(c, v, p, cx) for c in e["args"]]
        a, d = Fraction(1), Fraction(0)
        for x, y in ds:
            a, d = S(mul(a, x)), S(add(mul(d, x), mul(a, y)))
        return a, d
    if op in ("Minus", "Divide", "Power"):
        (a1, a2), (b1, b2) = dv(e["l"], v, p, cx), dv(e["r"], v, p, cx)
        if op == "Minus":
            return S(add(a1, neg(b1))), S(add(a2, neg(b2)))
        if op == "Divide":
            val = S(div(a1, b1))
            return val, S(add(div(a2, b1), neg(div(mul(val, b2), b1))))        # (a/b)' = a'/b - (a/b) b'/b
        w = S(powq(a1, b1))
        t1 = mul(mul(b1, powq(a1, add(b1, Fraction(-1)))), a2)
        t2 = mul(mul(logb(math.e, a1), w), b2)
        return w, S(add(t1, t2))
    a1, a2 = dv(e["a"], v, p, cx)
    if op == "Negation":
        return neg(a1), neg(a2)
    if op == "Reciprocal":
        ia = inv(a1)
        return S(ia), S(neg(mul(a2, mul(ia, ia))))
    if op == "NthPower":
        k = e["k"]
        return S(ipow(a1, k)), (a2 if k == 1 else S(mul(mul(Fraction(k), ipow(a1, k - 1)), a2)))
    if op == "NthRoot":
        k = e["k"]
        r = S(root(a1, k))
        if k == 1:
            return r, a2
        return r, S(mul(mul(r, a2), inv(mul(Fraction(k), a1))))
    if op == "Exponential":
        b = lit(e["b"])
        w = S(expb(b, a1))
        return w, S(mul(mul(ln(b), w), a2))
    if op == "Logarithm":
        b = lit(e["b"])
        val = S(logb(b, a1))
        d = mul(a2, inv(a1))
        if not (isinstance(b, float) and b == math.e):
            d = mul(d, inv(ln(b)))
        return val, S(d)
    if op == "Cosine":
        return S(cos(a1)), S(mul(neg(sin(a1)), a2))
    if op == "Sine":
        return S(sin(a1)), S(mul(cos(a1), a2))
    raise ValueError(op)


def encode(x):
    """specval result -> record fed to TLC"""
    if isx(x):
        if abs(x.numerator) <= 30000 and x.denominator <= 30000:
            return {"k": "q", "n": x.numerator, "d": x.denominator}
        return {"k": "big"}
    try:
        fx = Fraction(x)          # a derived float that is (the double nearest to) a small rational: 0*x - 1 = -1.0, 1/3 = 0.333...
        cand = fx.limit_denominator(30000)
        if abs(cand.numerator) <= 30000 and abs(fx - cand) <= abs(fx) * Fraction(1, 10 ** 15):
            return {"k": "q", "n": cand.numerator, "d": cand.denominator}
    except (OverflowError, ValueError):
        pass
    return {"k": "fl"}


def value(e, p):
    """returns ("undef",) | ("illcond",) | ("ok", number, maxmag)"""
    return partial(e, None, p, which=0)


def _has_float(e):
    if e["op"] == "Constant":
        return e["val"]["k"] == "f"
    if e["op"] in ("Exponential", "Logarithm") and e["b"]["k"] == "f":
        return True
    ks = e.get("args") or ([e["l"], e["r"]] if "l" in e else ([e["a"]] if "a" in e else []))
    return any(_has_float(c) for c in ks)


def partial(e, v, p, which=1):
    global TAINT
    TAINT = any(c["k"] == "f" for c in p.values()) or _has_float(e)
    cx = Ctx()
    try:
        r = dv(e, v, p, cx)
    except Undef:
        return ("undef",)
    except IllCond as exc:
        return ("illcond", str(exc))
    except (OverflowError, ZeroDivisionError, ValueError):
        return ("illcond", "overflow")
    return ("ok", r[which], cx.maxmag)


def out_of_range(e, p):
    """True when exact intermediates of e at p leave the floating-point range (the properties exclude such cases).
    Used to PRE-SCREEN cases: Python would try to build astronomically large integers for some of them (30 GB observed)."""
    r = value(e, p)
    return r[0] == "illcond" and len(r) > 1 and r[1] in ("overflow", "huge", "tiny")


def sv_record(res):
    if res[0] == "undef":
        return {"k": "undef"}
    if res[0] == "illcond":
        return {"k": "ill"}
    return encode(res[1])


def close(impl_float, ref, maxmag, rel=1e-9):
    try:
        r = float(ref)
    except OverflowError:
        return None
    return abs(impl_float - r) <= rel * max(1.0, maxmag, abs(r))
