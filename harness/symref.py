"""Transliteration of SmSem.Deriv (the textbook derivative as a TERM) - used only by the float layer for second-order references."""
from smjson import Var, Const, ConstV, Add, Mul, Bin, Un, KUn, BUn, E_


def deriv(e, v):
    op = e["op"]
    if op == "Variable":
        return Const(1 if e["name"] == v else 0)
    if op == "Constant":
        return Const(0)
    if op == "Add":
        return Add(*[deriv(c, v) for c in e["args"]])
    if op == "Multiply":
        a = e["args"]
        return Add(*[Mul(deriv(a[j], v), *(a[:j] + a[j + 1:])) for j in range(len(a))])
    if op == "Minus":
        return Bin("Minus", deriv(e["l"], v), deriv(e["r"], v))
    if op == "Negation":
        return Un("Negation", deriv(e["a"], v))
    if op == "Divide":
        return Bin("Minus", Bin("Divide", deriv(e["l"], v), e["r"]), Bin("Divide", Mul(e["l"], deriv(e["r"], v)), KUn("NthPower", e["r"], 2)))
    if op == "Reciprocal":
        return Un("Negation", Bin("Divide", deriv(e["a"], v), KUn("NthPower", e["a"], 2)))
    if op == "NthPower":
        k = e["k"]
        return deriv(e["a"], v) if k == 1 else Mul(Const(k), KUn("NthPower", e["a"], k - 1), deriv(e["a"], v))
    if op == "NthRoot":
        k = e["k"]
        return deriv(e["a"], v) if k == 1 else Bin("Divide", deriv(e["a"], v), Mul(Const(k), KUn("NthPower", e, k - 1)))
    if op == "Exponential":
        b = e["b"]
        if b["k"] == "q" and b["n"] == 1 and b["d"] == 1:
            return Const(0)
        if b["k"] == "e":
            return Mul(e, deriv(e["a"], v))
        return Mul(BUn("Logarithm", ConstV(b), E_), e, deriv(e["a"], v))
    if op == "Logarithm":
        b = e["b"]
        if b["k"] == "e":
            return Bin("Divide", deriv(e["a"], v), e["a"])
        return Bin("Divide", deriv(e["a"], v), Mul(BUn("Logarithm", ConstV(b), E_), e["a"]))
    if op == "Power":
        return Add(Mul(e["r"], Bin("Power", e["l"], Bin("Minus", e["r"], Const(1))), deriv(e["l"], v)),
                   Mul(BUn("Logarithm", e["l"], E_), e, deriv(e["r"], v)))
    if op == "Cosine":
        return Mul(Un("Negation", Un("Sine", e["a"])), deriv(e["a"], v))
    if op == "Sine":
        return Mul(Un("Cosine", e["a"]), deriv(e["a"], v))
    raise ValueError(op)
