"""Run TLC on a spec of /verif/spec with a data/trace file, collect statistics and printed verdict lines."""
from __future__ import annotations
import json, os, re, shutil, subprocess, tempfile, time

VERIF = os.path.dirname(os.path.dirname(os.path.abspath(__file__)))
SPEC = os.path.join(VERIF, "spec")
JAR = "/opt/veriftools/tla/tla2tools.jar:/opt/veriftools/tla/CommunityModules-deps.jar"


class TlcFailure(Exception):
    """machinery failure (exit 2), never a verdict"""


def scratch_dir(tag):
    base = os.environ.get("VERIF_TMP") or os.path.join(VERIF, ".work")
    os.makedirs(base, exist_ok=True)
    return tempfile.mkdtemp(prefix=tag + "-", dir=base)


def parse_json_lines(out):
    """PrintT(ToJson(x)) prints a quoted, escaped JSON string per line; 16 workers interleave whole lines only"""
    res = []
    for line in out.splitlines():
        line = line.strip()
        if len(line) >= 2 and line[0] == '"' and line[-1] == '"' and ('{' in line or '[' in line):
            try:
                s = json.loads(line)
                res.append(json.loads(s))
            except Exception:
                pass
    return res


def run(module, cfg, trace_file=None, workers=16, timeout=3000, env_extra=None, simulate=None, extra_args=None,
        expect_violation=False, heap="10g", dfid=None):
    """returns dict(states, distinct, transitions?, out, lines, ok, violated, wall)"""
    meta = scratch_dir("tlc")
    env = dict(os.environ)
    if trace_file:
        env["TRACE_FILE"] = trace_file
    if env_extra:
        env.update(env_extra)
    cmd = ["java", "-XX:+UseParallelGC", f"-Xmx{heap}", "-Xss64m", "-cp", JAR, "tlc2.TLC", "-workers", str(workers), "-metadir", meta,
           "-noGenerateSpecTE", "-config", cfg]
    if simulate:
        cmd += ["-simulate", simulate]
    if extra_args:
        cmd += extra_args
    cmd.append(module)
    t0 = time.time()
    try:
        p = subprocess.run(cmd, cwd=SPEC, env=env, capture_output=True, text=True, timeout=timeout)
    except subprocess.TimeoutExpired as ex:
        shutil.rmtree(meta, ignore_errors=True)
        raise TlcFailure(f"TLC timeout after {timeout}s on {module}/{cfg}")
    finally:
        pass
    wall = time.time() - t0
    shutil.rmtree(meta, ignore_errors=True)
    out = p.stdout
    res = {"out": out, "err": p.stderr, "rc": p.returncode, "wall": wall, "cmd": " ".join(cmd)}
    m = re.search(r"(\d+) states generated, (\d+) distinct states found", out)
    if m:
        res["generated"] = int(m.group(1))
        res["distinct"] = int(m.group(2))
    m = re.search(r"The depth of the complete state graph search is (\d+)", out)
    if m:
        res["depth"] = int(m.group(1))
    res["violated"] = None
    m = re.search(r"Error: Invariant (\w+) is violated", out)
    if m:
        res["violated"] = m.group(1)
    m2 = re.search(r"Error: Action property (\w+) is violated", out)
    if m2:
        res["violated"] = m2.group(1)
    mt = re.search(r"Temporal propert(?:y (\w+) was|ies were) violated", out)
    if mt:
        res["violated"] = res["violated"] or (mt.group(1) or "temporal")
    finished = "Model checking completed. No error has been found." in out or (simulate and p.returncode in (0,))
    res["ok"] = bool(finished) and res["violated"] is None
    res["lines"] = parse_json_lines(out)
    if not res["ok"] and res["violated"] is None and not expect_violation:
        # neither success nor an invariant violation: evaluation error, parse error, deadlock ...
        tail = "\n".join(out.splitlines()[-40:])
        raise TlcFailure(f"TLC failed on {module}/{cfg} (rc={p.returncode}):\n{tail}\n{p.stderr[-2000:]}")
    return res


def run_chunked(module, cfg, rows, chunk=25000, max_bytes=24_000_000, **kw):
    """judge a big list of event rows in several TLC runs: at most `chunk` rows and about `max_bytes` of JSON per run
    (a 70 MB trace made the JVM thrash in garbage collection for an hour); returns (merged verdict lines, list of results)"""
    lines, results = [], []
    part, size = [], 0

    def flush():
        nonlocal part, size
        if not part:
            return None
        work = scratch_dir("chunk")
        try:
            tf = os.path.join(work, "trace.ndjson")
            with open(tf, "w") as f:
                f.write("\n".join(part) + "\n")
            res = run(module, cfg, trace_file=tf, **kw)
        finally:
            shutil.rmtree(work, ignore_errors=True)
        part, size = [], 0
        results.append(res)
        lines.extend(res["lines"])
        return res
    for r in rows:
        js = json.dumps(r, separators=(",", ":"))
        if part and (len(part) >= chunk or size + len(js) > max_bytes):
            res = flush()
            if res["violated"]:
                return lines, results
        part.append(js)
        size += len(js)
    flush()
    return lines, results


def sany(module):
    p = subprocess.run(["java", "-cp", JAR, "tla2sany.SANY", module], cwd=SPEC, capture_output=True, text=True)
    return p.returncode == 0 and "Semantic errors" not in p.stdout and "error" not in p.stdout.lower().replace("errors: 0", ""), p.stdout
