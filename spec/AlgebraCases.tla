---------------------------- MODULE AlgebraCases ----------------------------
(***************************************************************************)
(* Engine E-algebra: the value-object algebra of the library               *)
(*   C12  equality is structural, an equivalence, consistent with hashing  *)
(*   C13  the printed form is the constructor call (Repr grammar below)    *)
(*   C15  operator syntax builds exactly the named constructors            *)
(*   C16  constructor validation (Accepts table below)                     *)
(* The spec DEFINES structural equality (Eq, on parameter-normalised       *)
(* records), what a hash may depend on, the printed grammar, the operator  *)
(* table and the acceptance table; TLC checks their internal consistency   *)
(* on the enumerated universe (Repr injective on non-Eq pairs, Eq an       *)
(* equivalence on the fed triples) and judges every behaviour recorded     *)
(* from the implementation against them.                                   *)
(* Objects:  [kind |-> "Expr", e] [kind |-> "Point", names, vals]          *)
(*   [kind |-> "Partial", e, v, early] [kind |-> "Derivative", e, early]   *)
(*   [kind |-> "Differential", e, early] [kind |-> "Located", e, pt]       *)
(*   [kind |-> "Foreign", tag]                                             *)
(* Constants carry  lit = Python's str() of the number (TLC has no floats) *)
(***************************************************************************)
EXTENDS SmExpr, Json, IOUtils, TLCExt

VARIABLES blk, i
Cases == ndJsonDeserialize(IOEnv.TRACE_FILE)
N     == Len(Cases)
NBLK  == 64

\* ---- C12: structural equality on parameter-normalised trees (2 and 2.0 agree: only the numeric value counts)
NV(v) == IF v.k = "q" THEN [k |-> "q", n |-> v.n, d |-> v.d] ELSE IF v.k = "e" THEN [k |-> "e"] ELSE [k |-> "f", repr |-> v.repr]
RECURSIVE Norm(_)
Norm(e) == CASE e.op = "Variable" -> Var(e.name)
             [] e.op = "Constant" -> Const(NV(e.val))
             [] e.op \in NaryOps -> Nary(e.op, [j \in 1..Len(e.args) |-> Norm(e.args[j])])
             [] e.op \in BinOps -> Bin(e.op, Norm(e.l), Norm(e.r))
             [] e.op \in UnOps -> Un(e.op, Norm(e.a))
             [] e.op \in KOps -> KUn(e.op, Norm(e.a), e.k)
             [] OTHER -> BUn(e.op, Norm(e.a), NV(e.b))
Eq(a, b) == Norm(a) = Norm(b)
\* points: same coordinate names with equal values, in any order
PointMap(p) == [j \in 1..Len(p.names) |-> <<p.names[j], NV(p.vals[j])>>]
PointSet(p) == {PointMap(p)[j] : j \in 1..Len(p.names)}
EqObj(a, b) ==
  IF a.kind # b.kind THEN FALSE
  ELSE CASE a.kind = "Expr" -> Eq(a.e, b.e)
         [] a.kind = "Point" -> PointSet(a) = PointSet(b)
         [] a.kind = "Partial" -> Eq(a.e, b.e) /\ a.v = b.v
         [] a.kind \in {"Derivative", "Differential"} -> Eq(a.e, b.e)
         [] a.kind = "Located" -> Eq(a.e, b.e) /\ PointSet(a.pt) = PointSet(b.pt)
         [] OTHER -> FALSE                                   \* foreign objects equal nothing of ours

\* ---- C13: the printed form
Join(ss) == IF Len(ss) = 0 THEN "" ELSE FoldLeft(LAMBDA acc, s: acc \o ", " \o s, ss[1], Tail(ss))
RECURSIVE Repr(_)
Repr(e) == CASE e.op = "Variable" -> "Variable(\"" \o e.name \o "\")"
             [] e.op = "Constant" -> "Constant(" \o e.lit \o ")"
             [] e.op \in NaryOps -> e.op \o "(" \o Join([j \in 1..Len(e.args) |-> Repr(e.args[j])]) \o ")"
             [] e.op \in BinOps -> e.op \o "(" \o Repr(e.l) \o ", " \o Repr(e.r) \o ")"
             [] e.op \in UnOps -> e.op \o "(" \o Repr(e.a) \o ")"
             [] e.op \in KOps -> e.op \o "(" \o Repr(e.a) \o ", n=" \o ToString(e.k) \o ")"
             [] OTHER -> e.op \o "(" \o Repr(e.a) \o ", base=" \o e.blit \o ")"
ReprPoint(p) == "Point(" \o Join([j \in 1..Len(p.names) |-> p.names[j] \o "=" \o p.lits[j]]) \o ")"
ReprObj(o) == CASE o.kind = "Expr" -> Repr(o.e)
                [] o.kind = "Point" -> ReprPoint(o)
                [] o.kind = "Partial" -> "Partial(" \o Repr(o.e) \o ", Variable(\"" \o o.v \o "\"))"
                [] o.kind = "Derivative" -> "Derivative(" \o Repr(o.e) \o ")"
                [] o.kind = "Differential" -> "Differential(" \o Repr(o.e) \o ")"
                [] o.kind = "Located" -> "LocatedDifferential(" \o Repr(o.e) \o ", " \o ReprPoint(o.pt) \o ")"

\* ---- C15: operator table
OperatorResult(sym, a, b, k) ==
  CASE sym = "neg" -> Un("Negation", a)
    [] sym = "add" -> Nary("Add", <<a, b>>)
    [] sym = "sub" -> Bin("Minus", a, b)
    [] sym = "mul" -> Nary("Multiply", <<a, b>>)
    [] sym = "div" -> Bin("Divide", a, b)
    [] sym = "pow" -> Bin("Power", a, b)
    [] sym = "powk" -> KUn("NthPower", a, k)

\* ---- C16: acceptance table over argument classes
\* n classes: [c |-> "int", n] [c |-> "intfloat", n] [c |-> "nonintfloat"] [c |-> "inf"] [c |-> "nan"] [c |-> "str"] [c |-> "none"]
AcceptsN(x) == x.c \in {"int", "intfloat"} /\ x.n >= 1
\* base classes: [c |-> "num", sign |-> -1/0/1, one |-> BOOLEAN] or [c |-> "str"/"none"]
AcceptsBase(ctor, x) == x.c = "num" /\ x.sign = 1 /\ (ctor = "Logarithm" => ~x.one)
\* names: [c |-> "str", empty |-> BOOLEAN, word |-> BOOLEAN] (word: every character is a word character) or other classes
AcceptsName(x) == x.c = "str" /\ ~x.empty /\ x.word
Accepts(c) ==
  CASE c.ctor \in {"NthPower", "NthRoot"} -> c.operands_ok /\ AcceptsN(c.n)
    [] c.ctor \in {"Exponential", "Logarithm"} -> c.operands_ok /\ (c.base.c = "default" \/ AcceptsBase(c.ctor, c.base))
    [] c.ctor = "Variable" -> AcceptsName(c.name)
    [] OTHER -> c.operands_ok

\* ---- judgement per event kind
Judge(c) ==
  CASE c.kind = "cmp" ->
         LET ex == EqObj(c.a, c.b) IN
         (IF c.raised THEN <<"V:C12.comparison_raised">> ELSE
            (IF c.eq # ex THEN <<(IF ex THEN "V:C12.equal_objects_compare_unequal" ELSE "V:C12.unequal_objects_compare_equal")>> ELSE <<>>)
            \o (IF c.ne = c.eq THEN <<"V:C12.ne_inconsistent_with_eq">> ELSE <<>>)
            \o (IF c.eq_rev # c.eq THEN <<"V:C12.asymmetric">> ELSE <<>>)
            \o (IF ex /\ ~c.hash_eq THEN <<"V:C12.equal_objects_hash_differently">> ELSE <<>>)
            \o (IF ex /\ ~c.member THEN <<"V:C12.set_or_dict_lookup_failed">> ELSE <<>>)
            \o (IF ~ex /\ c.member_other THEN <<"V:C12.unequal_object_found_in_set">> ELSE <<>>))
         \* C13 second clause on the same pairs: unequal expressions never print identically
         \o (IF ~c.raised /\ c.a.kind = "Expr" /\ c.b.kind = "Expr" /\ ~ex /\ c.repr_a = c.repr_b THEN <<"V:C13.unequal_print_identically">> ELSE <<>>)
         \* design: the spec's own grammar is injective on this pair
         \o (IF c.a.kind = "Expr" /\ c.b.kind = "Expr" /\ ~ex /\ Repr(c.a.e) = Repr(c.b.e) THEN <<"D:repr_not_injective">> ELSE <<>>)
    [] c.kind = "refl" ->
         (IF c.raised THEN <<"V:C12.comparison_raised">> ELSE
            (IF ~c.eq THEN <<"V:C12.not_reflexive">> ELSE <<>>) \o (IF c.ne THEN <<"V:C12.ne_inconsistent_with_eq">> ELSE <<>>)
            \o (IF ~c.copy_eq THEN <<"V:C12.fresh_copy_unequal">> ELSE <<>>) \o (IF ~c.copy_hash_eq THEN <<"V:C12.equal_objects_hash_differently">> ELSE <<>>))
    [] c.kind = "trans" ->
         LET ab == EqObj(c.a, c.b) bc == EqObj(c.b, c.c) ac == EqObj(c.a, c.c) IN
         (IF c.raised THEN <<"V:C12.comparison_raised">> ELSE
            (IF c.ab /\ c.bc /\ ~c.ac THEN <<"V:C12.not_transitive">> ELSE <<>>)
            \o (IF c.ab # ab \/ c.bc # bc \/ c.ac # ac THEN <<"V:C12.eq_wrong_in_triple">> ELSE <<>>))
         \o (IF ab /\ bc /\ ~ac THEN <<"D:eq_not_transitive">> ELSE <<>>)
    [] c.kind = "foreign" ->
         (IF c.raised THEN <<"V:C12.comparison_with_foreign_object_raised">> ELSE
            (IF c.eq \/ ~c.ne THEN <<"V:C12.equal_to_foreign_object">> ELSE <<>>))
    [] c.kind = "print" ->
         LET r == ReprObj(c.o) IN
         (IF c.raised THEN <<"V:C13.printing_raised">> ELSE
            (IF c.repr # r THEN <<"V:C13.repr_is_not_the_constructor_call">> ELSE <<>>)
            \o (IF c.str # r THEN <<"V:C13.str_is_not_the_constructor_call">> ELSE <<>>)
            \o (IF c.rt = "equal" THEN <<>> ELSE IF c.rt = "unequal" THEN <<"V:C13.round_trip_gives_unequal_object">>
                ELSE IF c.rt = "skip" THEN <<>> ELSE <<"V:C13.printed_text_does_not_evaluate">>))
    [] c.kind = "operator" ->
         IF c.expect_reject THEN (IF c.raised THEN <<>> ELSE <<"V:C15.operand_coerced_instead_of_rejected">>)
         ELSE IF c.raised THEN <<"V:C15.operator_raised">>
         ELSE LET ex == OperatorResult(c.sym, c.a, c.b, c.k) IN
              (IF Norm(c.result) # Norm(ex) THEN <<"V:C15.operator_result_differs_from_constructor">> ELSE <<>>)
              \o (IF ~c.eq_ctor THEN <<"V:C15.operator_result_unequal_to_constructor_call">> ELSE <<>>)
    [] c.kind = "ctor" ->
         LET acc == Accepts(c) IN
         (IF acc /\ c.raised THEN <<"V:C16.rejected_legal_arguments">> ELSE <<>>)
         \o (IF ~acc /\ ~c.raised THEN <<"V:C16.accepted_illegal_arguments">> ELSE <<>>)
         \o (IF acc /\ ~c.raised /\ ~c.reported_ok THEN <<"V:C16.parameter_not_reported_back">> ELSE <<>>)
    [] OTHER -> <<"D:unknown_event_kind">>

Init == blk \in 1..NBLK /\ i = 0
Next == i = 0 /\ i' \in { g \in 1..N : (g % NBLK) + 1 = blk } /\ UNCHANGED blk
Spec == Init /\ [][Next]_<<blk,i>>
Judged == i = 0 \/ LET v == Judge(Cases[i]) IN
   /\ PrintT(ToJson([i |-> Cases[i].i, v |-> v]))
   /\ \A t \in 1..Len(v) : v[t] \notin {"D:repr_not_injective", "D:eq_not_transitive", "D:unknown_event_kind"}
=============================================================================
