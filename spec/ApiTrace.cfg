SPECIFICATION TSpec
CONSTANTS
  VerifyBeforeFormula = TRUE
  ResetRecurses = TRUE
  ResetStopsAtUncached = FALSE
  PowerShortCircuitChecksExponent = TRUE
  AccumulatorAdds = TRUE
  ResetOnAt = TRUE
  ResetOnPartialAt = TRUE
  ResetOnNumericPartials = TRUE
  EarlyChecksOriginal = TRUE
  ResetAfterWalk = FALSE
  MaxHist = 0
INVARIANT Judged
CHECK_DEADLOCK FALSE
