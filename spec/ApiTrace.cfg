SPECIFICATION TSpec
CONSTANTS
  VerifyBeforeFormula = TRUE
  ResetRecurses = TRUE
  PowerShortCircuitChecksExponent = TRUE
  AccumulatorAdds = TRUE
  ResetOnAt = TRUE
  ResetOnPartialAt = TRUE
  ResetOnNumericPartials = TRUE
  EarlyChecksOriginal = TRUE
  MaxHist = 0
INVARIANT Judged
CHECK_DEADLOCK FALSE
