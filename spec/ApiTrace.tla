----------------------------- MODULE ApiTrace ------------------------------
(***************************************************************************)
(* Trace validation for the state machine Smoothmath.tla (C06 C09 C10).    *)
(* One trace = one behaviour executed on the REAL library over the pool    *)
(* IOEnv.POOL_FILE: a sequence of public calls on shared expression        *)
(* objects and long-lived derivative objects, with for every call          *)
(*   out    the recorded outcome on the shared pool,                       *)
(*   fresh  the outcome of the same single call on freshly built copies,   *)
(*   bits   whether the two are bit-identical,                             *)
(*   snap   the pool's structure re-read from the live objects afterwards, *)
(*   fp     repr / == / probe-evaluation fingerprints unchanged (harness), *)
(*   memo   the _value attributes of the pool nodes afterwards.            *)
(* TLC replays the calls with the spec's own actions (Exec) and judges     *)
(* every event; all fields are logged, so validation is linear.            *)
(***************************************************************************)
EXTENDS Smoothmath

VARIABLES tb, ti
Traces == ndJsonDeserialize(IOEnv.TRACE_FILE)
NT     == Len(Traces)
NB     == 32

NumK == {"q", "f"}
\* the recorded outcome o against a spec value s (model prediction or reference)
Matches(o, s) ==
  CASE o.k = "timeout" -> TRUE
    [] s.k = "q"       -> o.k = "q" /\ o.n = s.n /\ o.d = s.d
    [] s.k = "undef"   -> o.k = "DomainError"
    [] s.k = "missing" -> o.k = "CoordinateMissing"
    [] s.k = "pyerr"   -> o.k = "PyError"
    [] s.k = "expr"    -> o.k = "expr" /\ Strip(o.e) = s.e
    [] s.k \in {"nx","oor"} -> o.k \in NumK                  \* a defined real: some number
    [] OTHER -> TRUE                                         \* "unk", "none": not decidable here
SameOutcome(a, b) ==
  IF a.k = "timeout" \/ b.k = "timeout" THEN TRUE            \* the per-call alarm fired (machine under load): inconclusive
  ELSE IF a.k = "q" /\ b.k = "q" THEN a.n = b.n /\ a.d = b.d
  ELSE IF a.k \in NumK /\ b.k \in NumK THEN TRUE            \* floats: compared by the harness (bits / tolerance)
  ELSE IF a.k = "expr" /\ b.k = "expr" THEN Strip(a.e) = Strip(b.e)
  ELSE a.k = b.k /\ (a.k # "PyError" \/ a.t = b.t)

Switched(sy, c) == (c.a = "pat" /\ ~c.e /\ PKey(c.r, c.v) \in sy) \/ (c.a \in {"dat","datnum"} /\ ~c.e /\ DKey(c.r) \in sy)

JudgeTrace(t) ==
  LET n == Len(t.calls)
      run == FoldLeft(LAMBDA st, j:
                 LET c == t.calls[j]
                     x == Exec(st.m, st.sy, c)
                     o == t.outs[j]
                     f == t.fresh[j]
                     ref == RefOut(c)
                     sw == Switched(st.sy, c)
                     usage == c.a \in DerivCalls /\ ~Supplies(c)
                     tags ==
                        (IF o.k \in {"PyError","bad"} /\ ~(c.a = "atnum" /\ Cardinality(HVars(Heap, c.r)) >= 2) THEN <<"V:C17.foreign_" \o o.t>> ELSE <<>>)
                        \o (IF usage \/ SameOutcome(o, f) THEN <<>> ELSE <<"V:C09.differs_from_fresh_copy">>)
                        \o (IF ~usage /\ ~sw /\ o.k \in NumK /\ f.k \in NumK /\ ~t.bits[j] THEN <<"V:C09.bits_differ_from_fresh_copy">> ELSE <<>>)
                        \o (IF ref.k # "none" /\ ~Matches(o, ref) THEN <<"V:C09.differs_from_reference">> ELSE <<>>)
                        \o (IF t.snaps[j] = Heap THEN <<>> ELSE <<"V:C10.pool_structure_changed">>)
                        \o (IF t.fp[j] THEN <<>> ELSE <<"V:C10.fingerprint_changed">>)
                        \o (IF usage \/ Matches(o, x.res.v) THEN <<>> ELSE <<"drift">>)
                        \o (IF ref.k \in {"nx","oor","unk"} THEN <<"fl">> ELSE <<>>)
                 IN [m |-> x.res.m, sy |-> x.sy, v |-> Append(st.v, tags)],
              [m |-> EmptyMemo(Heap), sy |-> {}, v |-> <<>>], [j \in 1..n |-> j])
      flags == \A g \in 1..Len(t.ftrees) : TruthfulFlags(t.ftrees[g])
  IN [ev |-> run.v, flags |-> flags]

\* agreement of two recorded outcomes of the SAME query through different routes / object states (C06)
RoutePairs(t) ==
  LET n == Len(t.calls)
      D == {j \in 1..n : t.calls[j].a \in DerivCalls /\ Supplies(t.calls[j])}
      X == {j \in 1..n : t.calls[j].a \in {"pexpr","dexpr"}}
  IN [bad |-> {<<a, b>> \in D \X D : a < b /\ SameQuery(t.calls[a], t.calls[b]) /\ ~SameOutcome(t.outs[a], t.outs[b])},
      num |-> {<<a, b>> \in D \X D : a < b /\ SameQuery(t.calls[a], t.calls[b]) /\ t.outs[a].k \in NumK /\ t.outs[b].k \in NumK
                                     /\ ~(t.outs[a].k = "q" /\ t.outs[b].k = "q")},
      exprbad |-> {<<a, b>> \in X \X X : a < b /\ t.calls[a].r = t.calls[b].r /\ RefVar(t.calls[a]) = RefVar(t.calls[b])
                                     /\ ~SameOutcome(t.outs[a], t.outs[b])},
      pairs |-> Cardinality({<<a, b>> \in D \X D : a < b /\ SameQuery(t.calls[a], t.calls[b])})]

TInit == tb \in 1..NB /\ ti = 0 /\ Init
TNext == ti = 0 /\ ti' \in { g \in 1..NT : (g % NB) + 1 = tb } /\ UNCHANGED <<tb, vars>>
TSpec == TInit /\ [][TNext]_<<tb, ti, vars>>
Judged == ti = 0 \/ LET t == Traces[ti] rp == RoutePairs(t) IN
   PrintT(ToJson([tid |-> t.tid, v |-> JudgeTrace(t), probe |-> t.probe_ok,
                  c06 |-> [bad |-> SetToSeq(rp.bad), num |-> SetToSeq(rp.num), exprbad |-> SetToSeq(rp.exprbad), pairs |-> rp.pairs]]))
=============================================================================
