---------------------------- MODULE Determinism ----------------------------
(***************************************************************************)
(* C18 at design level: wherever the implementation iterates a SET of      *)
(* variable names (Expression._variable_names: numeric_partials_for,       *)
(* synthetic_partials_for, the normalisation of the early Differential's   *)
(* partials, Differential.at's mapping over the stored partials) the       *)
(* iteration order depends on the interpreter's hash seed.  The spec       *)
(* picks that order nondeterministically and states that no observable     *)
(* depends on it.                                                          *)
(*   order      the iteration order of the name set in this process        *)
(*   stored     the dict built while iterating (a sequence of <<name,      *)
(*              payload>> pairs = insertion order)                         *)
(*   folded     memo flags on SHARED sub-expressions set while the         *)
(*              partials are normalised one after the other in that order  *)
(* Observables: component(v) for every v, and the structure of every       *)
(* stored partial.  Mutant constants reproduce two realistic defects.      *)
(***************************************************************************)
EXTENDS Integers, Sequences, FiniteSets, TLC, SequencesExt, FiniteSetsExt

CONSTANTS Names,            \* the variable names of the expression (integers: TLC cannot order strings)
          KeysFromSorted,   \* MUTANT when TRUE: keys taken from sorted(names), values from dict order (zip misalignment)
          FoldOnlyOnce,     \* MUTANT when TRUE: a shared closed sub-expression can be folded by the FIRST normalisation only
          ChildrenAsSet     \* MUTANT when TRUE: an n-ary node walks set(children) instead of the argument list (seed C18_r3mut1)

VARIABLES order, corder, stored, folded, obs
vars == <<order, corder, stored, folded, obs>>

Perms == {s \in [1..Cardinality(Names) -> Names] : \A a, b \in 1..Cardinality(Names) : a # b => s[a] # s[b]}
Sorted == SetToSortSeq(Names, LAMBDA a, b: a < b)
Payload(v) == <<"d/d", v>>                         \* the (symbolic or numeric) partial w.r.t. v

\* iterate the set in `ord`, building a dict (insertion order = iteration order)
BuildDict(ord) == [j \in 1..Len(ord) |-> <<ord[j], Payload(ord[j])>>]
\* Differential.at: map the stored dict to numbers, key-preserving (or the misaligned zip of the mutant)
Evaluate(d) == IF KeysFromSorted THEN [j \in 1..Len(d) |-> <<Sorted[j], d[j][2]>>] ELSE d
Lookup(d, v) == IF \E j \in 1..Len(d) : d[j][1] = v THEN (CHOOSE j \in 1..Len(d) : d[j][1] = v) ELSE 0
Component(d, v) == LET j == Lookup(d, v) IN IF j = 0 THEN <<"zero">> ELSE d[j][2]
\* structure of the normalised partial w.r.t. v: contains the shared closed sub-expression either folded to a constant or not
Structure(ord, v) == LET pos == CHOOSE j \in 1..Len(ord) : ord[j] = v IN
   IF FoldOnlyOnce /\ pos > 1 THEN <<"partial", v, "unfolded">> ELSE <<"partial", v, "folded">>
\* A second hash-ordered collection (session 3): the CHILDREN of an n-ary node.  Expression hashes contain str hashes, so
\* set(children) iterates in a seed-dependent order.  The reverse sweep adds one contribution per child to the accumulator of
\* each variable; float addition is not associative and the symbolic accumulator builds Add(...) in arrival order, so the
\* observable is the SEQUENCE of contributions, not their multiset.  The code walks the argument list (NC children, in order).
NC == 3
CPerms == {s \in [1..NC -> 1..NC] : \A a, b \in 1..NC : a # b => s[a] # s[b]}
ArgList == [j \in 1..NC |-> j]
Accumulated(co) == [j \in 1..NC |-> <<"contribution of child", (IF ChildrenAsSet THEN co[j] ELSE ArgList[j])>>]
Observables(ord, co) == [v \in Names |-> <<Component(Evaluate(BuildDict(ord)), v), Structure(ord, v), Accumulated(co)>>]

Init == /\ order \in Perms
        /\ corder \in CPerms
        /\ stored = BuildDict(order)
        /\ folded = {}
        /\ obs = Observables(order, corder)
Next == UNCHANGED vars
Spec == Init /\ [][Next]_vars

\* C18: every observable is the same for every iteration order (compare with the canonical, sorted order)
OrderInsensitive == obs = Observables(Sorted, ArgList)
\* and each component is the partial of ITS variable
ComponentsAligned == \A v \in Names : obs[v][1] = Payload(v)
=============================================================================
