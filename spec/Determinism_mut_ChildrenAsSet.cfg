SPECIFICATION Spec
CONSTANTS
  ChildrenAsSet = TRUE
  Names = {1, 2, 3, 4}
  KeysFromSorted = FALSE
  FoldOnlyOnce = FALSE
INVARIANT OrderInsensitive
INVARIANT ComponentsAligned
CHECK_DEADLOCK FALSE
