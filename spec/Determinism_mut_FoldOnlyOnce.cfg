SPECIFICATION Spec
CONSTANTS
  ChildrenAsSet = FALSE
  Names = {1, 2, 3, 4}
  KeysFromSorted = FALSE
  FoldOnlyOnce = TRUE
INVARIANT OrderInsensitive
INVARIANT ComponentsAligned
CHECK_DEADLOCK FALSE
