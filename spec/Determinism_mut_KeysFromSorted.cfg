SPECIFICATION Spec
CONSTANTS
  ChildrenAsSet = FALSE
  Names = {1, 2, 3, 4}
  KeysFromSorted = TRUE
  FoldOnlyOnce = FALSE
INVARIANT OrderInsensitive
INVARIANT ComponentsAligned
CHECK_DEADLOCK FALSE
