SPECIFICATION Spec
CONSTANTS
  VerifyBeforeFormula = TRUE
  ResetRecurses = TRUE
  PowerShortCircuitChecksExponent = TRUE
  AccumulatorAdds = TRUE
INVARIANT Judged
CHECK_DEADLOCK FALSE
