SPECIFICATION Spec
CONSTANTS
  VerifyBeforeFormula = TRUE
  ResetRecurses = TRUE
  ResetStopsAtUncached = FALSE
  PowerShortCircuitChecksExponent = TRUE
  AccumulatorAdds = TRUE
INVARIANT Judged
CHECK_DEADLOCK FALSE
