SPECIFICATION Spec
CONSTANTS
  VerifyBeforeFormula = TRUE
  ResetRecurses = TRUE
  PowerShortCircuitChecksExponent = TRUE
  AccumulatorAdds = TRUE
INVARIANT Emit
INVARIANT DesignOK
CHECK_DEADLOCK FALSE
