----------------------------- MODULE DiffCases -----------------------------
(***************************************************************************)
(* Engine E-diff: numeric differentiation routes (C03, C04, C07, and the   *)
(* derivative clauses of C14 / C17).  Same three-way judgement as          *)
(* EvalCases: DESIGN (operational SmDiffNum vs reference DVal), HARD (the  *)
(* outcome recorded from the implementation vs the reference), DRIFT.      *)
(* Routes per (expression, point, variable):                               *)
(*   pa  late Partial(e,v).at(p)            (forward mode)                 *)
(*   dv  late Derivative(e).at(p | number)  (forward mode, one variable)   *)
(*   ld  LocatedDifferential(e,p).component(v)      (reverse mode)         *)
(*   da  Differential(e).at(p).component(v)         (evaluate + reverse)   *)
(***************************************************************************)
EXTENDS SmDiffNum, Json, IOUtils, TLCExt

VARIABLES blk, i

Cases == ndJsonDeserialize(IOEnv.TRACE_FILE)
N     == Len(Cases)
NBLK  == 64

NumKinds == {"q", "f"}
OutClass(o) == CASE o.k \in NumKinds -> "num" [] o.k = "DomainError" -> "DomainError"
                 [] o.k = "CoordinateMissing" -> "CoordinateMissing" [] OTHER -> "PyError"
Tag(t, route) == t \o "@" \o route
Forward == {"pa", "pa2", "dv"}

\* judgement of ONE recorded outcome o of route rt against reference ref and operational prediction op
JudgeOne(e, p, v, rt, ref, sup, op, o, sv) ==
  LET P   == IF rt \in Forward THEN "C03" ELSE IF rt \in {"pe", "dae"} THEN "C06" ELSE "C04"
      c17 == IF o.k \in {"PyError", "bad"} THEN <<Tag("V:C17.foreign_" \o o.t, rt)>> ELSE <<>>
      c14 == IF sup /\ o.k = "CoordinateMissing" THEN <<Tag("V:C14.missing_raised", rt)>> ELSE <<>>
      val == IF sup /\ ref.k = "q" THEN
                (IF o.k = "q" THEN
                    (IF o.n # ref.n \/ o.d # ref.d THEN <<Tag("V:" \o P \o ".value", rt)>>
                     ELSE IF PolyFrag(e) /\ ExactFrag(e,p) /\ SmallDyadic(ref) /\ ~o.exact THEN <<Tag("V:" \o P \o ".inexact", rt)>>
                     ELSE <<>>)
                 ELSE IF o.k = "f" THEN <<Tag("V:" \o P \o ".value", rt)>>
                 ELSE <<>>)
             ELSE <<>>
      c07 == IF ~sup THEN <<>>
             ELSE IF ref.k = "undef" /\ o.k \in NumKinds THEN <<Tag("V:C07.number_where_undefined", rt)>>
             ELSE IF ref.k \in {"q","nx","oor"} /\ o.k = "DomainError" THEN <<Tag("V:C07.raised_where_defined", rt)>>
             ELSE <<>>
      fl  == IF sup /\ ref.k \in {"nx","oor","unk"} THEN <<Tag("fl", rt)>> ELSE <<>>
      des == IF op.k = "pyerr" THEN <<Tag("D:pyerr", rt)>>
             ELSE IF ~sup THEN <<>>
             ELSE IF ref.k = "q" THEN (IF op = ref \/ op.k \in {"unk","nx","oor"} THEN <<>> ELSE <<Tag("D:value", rt)>>)
             ELSE IF ref.k = "undef" THEN (IF op.k \in {"undef","unk"} THEN <<>> ELSE <<Tag("D:class", rt)>>)
             ELSE IF ref.k \in {"nx","oor"} THEN (IF op.k \in {"nx","oor","unk","q"} THEN <<>> ELSE <<Tag("D:class", rt)>>)
             ELSE <<>>
      dr  == IF op.k = "unk" \/ (op.k \in {"nx","oor"} /\ o.k \in NumKinds) THEN <<>>
             ELSE IF op.k = "q" THEN (IF o.k = "q" /\ o.n = op.n /\ o.d = op.d THEN <<>> ELSE <<Tag("drift", rt)>>)
             ELSE IF Class(op) = OutClass(o) THEN <<>> ELSE <<Tag("drift", rt)>>
  IN c17 \o c14 \o val \o c07 \o des \o dr \o fl

SvCheck(ref, sup, sv) ==
  IF ~sup \/ sv.k = "ill" THEN <<>>
  ELSE IF ref.k = "q" THEN (IF sv.k = "q" /\ sv.n = ref.n /\ sv.d = ref.d THEN <<"sv">> ELSE <<"SV:mismatch">>)
  ELSE IF ref.k = "undef" THEN (IF sv.k = "undef" THEN <<"sv">> ELSE <<"SV:mismatch">>)
  ELSE IF ref.k \in {"nx","oor"} THEN (IF sv.k = "undef" THEN <<"SV:mismatch">> ELSE <<>>)
  ELSE <<>>

\* all routes for one (point j, queried variable x)
JudgePV(c, e, h, root, p, x, outs, sv, dvout) ==
  LET sup == Vars(e) \subseteq DOMAIN p
      ref == IF sup THEN DVal(e, x, p) ELSE Missing
      m0  == EmptyMemo(h)
      opa == LatePartialAt(h, root, x, m0, p).v
      old == LocatedComponent(h, root, x, m0, p).v
      oda == LateDifferentialAtComponent(h, root, x, m0, p).v
  IN JudgeOne(e, p, x, "pa", ref, sup, opa, outs.pa, sv)
     \* the same query on a LONG-LIVED late Partial, asked a second time after the expression was evaluated elsewhere
     \o JudgeOne(e, p, x, "pa2", ref, sup, opa, outs.pa2, sv)
     \o JudgeOne(e, p, x, "ld", ref, sup, old, outs.ld, sv)
     \* the same reverse-mode query asked again after ANOTHER root sharing one of this expression's sub-expression objects was
     \* evaluated at a different point (history across shared objects; same prediction: a fresh memo)
     \o JudgeOne(e, p, x, "ld2", ref, sup, old, outs.ld2, sv)
     \o JudgeOne(e, p, x, "da", ref, sup, oda, outs.da, sv)
     \* EARLY long-lived Partial (symbolic path): judged against the reference only (C07 raise-iff-undefined, value as C06)
     \o (IF outs.pe.k = "na" THEN <<>> ELSE JudgeOne(e, p, x, "pe", ref, sup, ref, outs.pe, sv))
     \* a LONG-LIVED late Differential: component_at for one variable first, then at(p).component for every variable
     \o JudgeOne(e, p, x, "da2", ref, sup, oda, outs.da2, sv)
     \* EARLY Differential(e, compute_early=True).at(p).component(v): against the reference only
     \o (IF outs.dae.k = "na" THEN <<>> ELSE JudgeOne(e, p, x, "dae", ref, sup, ref, outs.dae, sv))
     \o (IF dvout.k # "na" /\ Vars(e) \subseteq {x} /\ (x \in Vars(e) \/ Vars(e) = {})
         THEN JudgeOne(e, p, x, "dv", ref, sup, opa, dvout, sv) ELSE <<>>)
     \o SvCheck(ref, sup, sv)

\* C14: Derivative(e) is constructible exactly for expressions with at most one variable
DerivativeCtor(c) == LET e == Unfold(c.h, Len(c.h)) IN
   IF (Cardinality(Vars(e)) <= 1) = (c.dctor = "ok") THEN <<>> ELSE <<"V:C14.derivative_constructor@dv">>
Verdict(c) ==
  LET h == c.h root == Len(h) e == Unfold(h, root) IN
  [j \in 1..Len(c.pts) |->
     [t \in 1..Len(c.q) |-> JudgePV(c, e, h, root, c.pts[j], c.q[t], c.outs[j][t], c.svs[j][t],
                                     IF c.q[t] = c.dvar THEN c.dv[j] ELSE [k |-> "na"])
                             \o (IF j = 1 /\ t = 1 THEN DerivativeCtor(c) ELSE <<>>)]]

Init == blk \in 1..NBLK /\ i = 0
Next == i = 0 /\ i' \in { k \in 1..N : (k % NBLK) + 1 = blk } /\ UNCHANGED blk
Spec == Init /\ [][Next]_<<blk,i>>

DesignTags == { Tag(d, rt) : d \in {"D:pyerr","D:value","D:class"}, rt \in {"pa","pa2","pe","ld","ld2","da","da2","dae","dv"} }
\* ONE invariant: judge once, print, check the design-level clause
Judged == i = 0 \/ LET v == TLCEval(Verdict(Cases[i])) IN
   /\ PrintT(ToJson([i |-> Cases[i].i, v |-> v]))
   /\ \A j \in 1..Len(v) : \A t \in 1..Len(v[j]) : \A u \in 1..Len(v[j][t]) : v[j][t][u] \notin DesignTags
=============================================================================
