SPECIFICATION Spec
CONSTANTS
  VerifyBeforeFormula = TRUE
  ResetRecurses = TRUE
INVARIANT Emit
INVARIANT DesignOK
INVARIANT OracleOK
INVARIANT WellFormedOK
CHECK_DEADLOCK FALSE
