SPECIFICATION Spec
CONSTANTS
  VerifyBeforeFormula = TRUE
  ResetRecurses = TRUE
  ResetStopsAtUncached = FALSE
INVARIANT Judged
CHECK_DEADLOCK FALSE
