SPECIFICATION Spec
CONSTANTS
  VerifyBeforeFormula = TRUE
  ResetRecurses = TRUE
INVARIANT Judged
CHECK_DEADLOCK FALSE
