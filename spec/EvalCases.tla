----------------------------- MODULE EvalCases -----------------------------
(***************************************************************************)
(* Engine E-eval: evaluation (C01, C02, C14 coordinates, C17).             *)
(* One TLC run does, for every fed case (heap, point, recorded outcome):   *)
(*   DESIGN  the operational model (SmEval) agrees with the reference      *)
(*           semantics (SmSem) and never produces a foreign Python error   *)
(*           - exhaustive over the bounded universe that is fed as data    *)
(*           (TLC cannot build 10^5 nested records as a constant, see      *)
(*           DESIGN.md 1.1); an invariant violation stops TLC;             *)
(*   HARD    the outcome RECORDED FROM THE IMPLEMENTATION satisfies the    *)
(*           property clauses w.r.t. the reference semantics;              *)
(*   DRIFT   the recorded outcome equals the operational prediction.       *)
(* State space: blk \in 1..NBLK are the initial states (spread over the    *)
(* workers), each expands to the cases of its block.                       *)
(***************************************************************************)
EXTENDS SmEval, Json, IOUtils, TLCExt

VARIABLES blk, i

Cases == ndJsonDeserialize(IOEnv.TRACE_FILE)
N     == Len(Cases)
NBLK  == 64

\* ---- one (case, point) judgement ---------------------------------------
NumKinds == {"q", "f"}
OutClass(o) == CASE o.k \in NumKinds -> "num" [] o.k = "DomainError" -> "DomainError"
                 [] o.k = "CoordinateMissing" -> "CoordinateMissing" [] OTHER -> "PyError"
Judge(c, p, o, sv) ==
  LET h    == c.h
      root == Len(h)
      e    == Unfold(h, root)
      vs   == Vars(e)
      sup  == vs \subseteq DOMAIN p
      ref  == IF sup THEN Val(e,p) ELSE Missing
      op   == AtPoint(h, root, EmptyMemo(h), p).v
      c17  == IF o.k \in {"PyError", "bad"} THEN <<"V:C17.foreign_" \o o.t>> ELSE <<>>
      c14  == IF sup /\ o.k = "CoordinateMissing" THEN <<"V:C14.missing_raised">>
              ELSE IF ~sup /\ o.k \in NumKinds THEN <<"V:C14.number_without_coordinate">> ELSE <<>>
      c01  == IF sup /\ ref.k = "q" THEN
                 (IF o.k = "q" THEN
                     (IF o.n # ref.n \/ o.d # ref.d THEN <<"V:C01.value">>
                      ELSE IF ExactFrag(e,p) /\ ~o.exact THEN <<"V:C01.inexact">> ELSE <<>>)
                  ELSE IF o.k = "f" THEN <<"V:C01.value">>
                  ELSE IF o.k = "DomainError" THEN <<"V:C01.raised", "V:C02.raised_on_domain">>
                  ELSE <<>>)
              ELSE <<>>
      c02  == IF sup /\ ref.k \in {"q","nx","oor"} /\ o.k = "bad" THEN <<"V:C02.not_a_finite_real_" \o o.t>>
              ELSE IF sup /\ ref.k = "undef" /\ o.k \in NumKinds THEN <<"V:C02.number_outside_domain">>
              ELSE IF sup /\ ref.k \in {"nx","oor"} /\ o.k = "DomainError" THEN <<"V:C02.raised_on_domain">>
              ELSE <<>>
      fl   == IF sup /\ ref.k \in {"nx","oor","unk"} THEN <<"fl">> ELSE <<>>
      des  == IF op.k = "pyerr" THEN <<"D:pyerr">>
              ELSE IF ~sup THEN (IF op.k \in {"missing","undef","unk"} THEN <<>> ELSE <<"D:class">>)
              ELSE IF ref.k = "q" THEN (IF op = ref THEN <<>> ELSE <<"D:value">>)
              ELSE IF ref.k = "undef" THEN (IF op.k = "undef" THEN <<>> ELSE <<"D:class">>)
              ELSE IF ref.k \in {"nx","oor"} THEN (IF op.k \in {"nx","oor","unk"} THEN <<>> ELSE <<"D:class">>)
              ELSE <<>>
      dr   == IF op.k = "unk" \/ (op.k \in {"nx","oor"} /\ o.k \in NumKinds) THEN <<>>
              ELSE IF op.k = "q" THEN (IF o.k = "q" /\ o.n = op.n /\ o.d = op.d THEN <<>> ELSE <<"drift">>)
              ELSE IF Class(op) = OutClass(o) THEN <<>> ELSE <<"drift">>
      \* the float layer (harness/specval.py) is bound to the spec: it must agree on every exact case
      svc  == IF ~sup \/ sv.k = "ill" THEN <<>>
              ELSE IF ref.k = "q" THEN (IF sv.k = "q" /\ sv.n = ref.n /\ sv.d = ref.d THEN <<"sv">> ELSE <<"SV:mismatch">>)
              ELSE IF ref.k = "undef" THEN (IF sv.k = "undef" THEN <<"sv">> ELSE <<"SV:mismatch">>)
              ELSE IF ref.k \in {"nx","oor"} THEN (IF sv.k = "undef" THEN <<"SV:mismatch">> ELSE <<>>)
              ELSE <<>>
  IN c17 \o c14 \o c01 \o c02 \o des \o dr \o fl \o svc

PointOf(c, j) == IF c.mode = "number" THEN NumberPoint(c.h, Len(c.h), c.pts[j]) ELSE c.pts[j]
\* a bare number for an expression with >= 2 variables must be rejected (any exception), C14
JudgeNumberMulti(o) == IF o.k \in NumKinds THEN <<"V:C14.number_accepted_for_multivariable">> ELSE <<>>

Verdict(c) ==
  [j \in 1..Len(c.pts) |->
      IF c.mode = "number" /\ Cardinality(HVars(c.h, Len(c.h))) >= 2 THEN JudgeNumberMulti(c.outs[j])
      ELSE Judge(c, PointOf(c,j), c.outs[j], c.svs[j])
           \* C14: a bare number IS accepted for an expression with at most one variable
           \o (IF c.mode = "number" /\ c.outs[j].k = "PyError" THEN <<"V:C14.number_rejected_for_single_variable_expression">> ELSE <<>>)]

\* ---- state machine --------------------------------------------------------
Init == blk \in 1..NBLK /\ i = 0
Next == i = 0 /\ i' \in { k \in 1..N : (k % NBLK) + 1 = blk } /\ UNCHANGED blk
Spec == Init /\ [][Next]_<<blk,i>>

\* ONE invariant: judge the case once, print the verdict line, check the DESIGN-level clauses
\* (operational model = reference, no foreign Python error, oracle cross-check, well-formedness)
Judged == i = 0 \/
   LET c == Cases[i]
       v == TLCEval(Verdict(c))
       e == Unfold(c.h, Len(c.h))
   IN /\ PrintT(ToJson([i |-> c.i, v |-> v]))
      /\ \A j \in 1..Len(v) : \A t \in 1..Len(v[j]) : v[j][t] \notin {"D:pyerr","D:class","D:value"}
      /\ WellFormed(e)
      /\ c.mode = "number" \/ \A j \in 1..Len(c.pts) :
            (Vars(e) \subseteq DOMAIN c.pts[j]) => \A x \in Vars(e) : ValDerivAgree(e, x, c.pts[j])
=============================================================================
