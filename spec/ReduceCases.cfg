SPECIFICATION Spec
INVARIANT Emit
INVARIANT DesignOK
CHECK_DEADLOCK FALSE
