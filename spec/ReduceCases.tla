---------------------------- MODULE ReduceCases ----------------------------
(***************************************************************************)
(* Engine E-reduce: simplification (C08 soundness of every step / NF pass /*)
(* end-to-end; C11 termination, no revisit, quadratic step bound,          *)
(* rule-free final form).                                                  *)
(* An event is the complete DERIVATION recorded from the implementation    *)
(* for one input: forms f0 -> f1 -> ... -> fk obtained by single-stepping  *)
(* _take_reduction_step (memo flags included), the output of the NF pass   *)
(* on fk, and the output of an independent end-to-end _normalize().        *)
(* TLC judges, on the RECORDED forms:                                      *)
(*   HARD   every adjacent pair is sound on every grid point (reference    *)
(*          semantics), the NF pair and the end-to-end pair are sound,     *)
(*          no form is revisited, the number of steps is within the        *)
(*          quadratic bound, the last form is rule-free (spec's            *)
(*          NoRuleApplies, flags ignored);                                 *)
(*   MODEL  SmReduce.Step(f_j) = f_(j+1) and NF/Normalize predict the      *)
(*          outputs ("drift" otherwise) - and, because the model is run    *)
(*          on every form, TLC also checks the DESIGN: each model step is  *)
(*          sound unless it is the named known finding T2-even-even.       *)
(***************************************************************************)
EXTENDS SmReduce, Json, IOUtils, TLCExt

VARIABLES blk, i

Cases == ndJsonDeserialize(IOEnv.TRACE_FILE)
N     == Len(Cases)
NBLK  == 64

\* the node at which one reduction step acts (same descent as StepR)
RECURSIVE ActNode(_)
ActNode(e) ==
  IF e.red \/ IsLeaf(e) THEN e
  ELSE IF ~HasVars(e) /\ ~e.ef /\ Val(e, <<>>).k # "undef" THEN e
  ELSE LET j == FirstIdx(Kids(e), LAMBDA c: ~c.red) IN IF j # 0 THEN ActNode(Kids(e)[j]) ELSE e
\* the named known finding KF-1: rule T2 (root of power) with both parameters even
IsKF1Step(e) == LET n == ActNode(e) IN
   /\ StepR(e).rule = "T2"
   /\ n.op = "NthRoot" /\ n.a.op = "NthPower" /\ n.k % 2 = 0 /\ n.a.k % 2 = 0

\* soundness of a -> b on the points; returns [bad, fl]: bad = some point certainly unsound,
\* fl = indices of points the float layer has to decide
PairJudge(a, b, pts) ==
  LET code == TLCEval([j \in 1..Len(pts) |->
                 LET va == Val(a, pts[j]) vb == Val(b, pts[j]) IN
                 CASE va.k = "q" -> (IF vb = va THEN "ok" ELSE IF vb.k \in {"nx","oor","unk"} THEN "fl" ELSE "bad")
                   [] va.k \in {"nx","oor"} -> (IF vb.k = "undef" THEN "bad" ELSE "fl")
                   [] va.k = "unk" -> "fl"
                   [] OTHER -> "ok"])
  IN [bad |-> {j \in 1..Len(pts) : code[j] = "bad"}, fl |-> {j \in 1..Len(pts) : code[j] = "fl"}]

SortedSeq(S) == SetToSortSeq(S, <)

Verdict(c) ==
  LET fs   == c.forms
      k    == Len(fs)
      pts  == c.pts
      sf   == TLCEval([j \in 1..k |-> Strip(fs[j])])
      pj   == TLCEval([j \in 1..(k-1) |-> PairJudge(fs[j], fs[j+1], pts)])
      \* per step: tags
      stepTags == TLCEval([j \in 1..(k-1) |->
          LET m   == StepR(fs[j])
              kf  == IsKF1Step(fs[j])
              drift == m.e # fs[j+1]
              \* design: the MODEL's own step is sound unless it is the named finding
              mbad == IF drift THEN PairJudge(fs[j], m.e, pts).bad # {} ELSE pj[j].bad # {}
          IN (IF pj[j].bad # {} THEN (IF kf /\ ~drift THEN <<"KF1">> ELSE <<"V:C08.step_unsound">>) ELSE <<>>)
             \o (IF drift THEN <<"drift">> ELSE <<>>)
             \o (IF mbad /\ ~kf THEN <<"D:model_step_unsound">> ELSE <<>>)
             \o (IF kf THEN <<"kf1step">> ELSE <<>>)
             \o <<m.rule>>])
      \* C11 on the recorded derivation
      chg  == {j \in 1..(k-1) : sf[j] # sf[j+1]}                      \* steps that changed the structure
      revisit == \E a, b \in 1..k : a < b /\ sf[a] = sf[b] /\ \E g \in a..(b-1) : sf[g] # sf[g+1]
      size0 == Size(fs[1])
      c11 == (IF revisit THEN <<"V:C11.revisit">> ELSE <<>>)
             \o (IF c.nsteps > 2 * size0 * size0 + 10 \/ c.capped THEN <<"V:C11.step_bound">> ELSE <<>>)
             \o (IF ~c.capped /\ ~NoRuleApplies(fs[k]) THEN <<"V:C11.not_rule_free">> ELSE <<>>)
             \o (IF c.warn /\ size0 <= 20 /\ c.own_budget THEN <<"V:C11.warning_small_input">> ELSE <<>>)
             \o (IF ~c.capped /\ ~fs[k].red THEN <<"V:C11.not_flagged">> ELSE <<>>)
      \* NF pass and end to end
      nfj  == PairJudge(fs[k], c.nf, pts)
      e2e  == PairJudge(fs[1], c.norm, pts)
      kfAny == \E j \in 1..(k-1) : stepTags[j][1] = "KF1"
      otherBad == \E j \in 1..(k-1) : stepTags[j][1] = "V:C08.step_unsound"
      nfTags == (IF nfj.bad # {} THEN <<"V:C08.nf_unsound">> ELSE <<>>)
                \* (the model's own NF pass is only run on inputs below 150 nodes: on a very large, given-up form it re-normalises every term with a full budget)
                \o (IF ~c.capped /\ size0 < 150 /\ Strip(NF(fs[k], c.budget)) # Strip(c.nf) THEN <<"drift">> ELSE <<>>)
      e2eTags == (IF e2e.bad # {} THEN
                     (IF kfAny /\ ~otherBad /\ nfj.bad = {} /\ (c.budget < 1000 \/ Strip(c.norm) = Strip(c.nf)) THEN <<"KF1">> ELSE <<"V:C08.normalize_unsound">>)
                  ELSE <<>>)
                 \o (IF c.budget >= 1000 /\ Strip(c.norm) # Strip(c.nf) THEN <<"drift_norm_vs_steps">> ELSE <<>>)
                 \o (IF Vars(Strip(c.norm)) \subseteq Vars(sf[1]) THEN <<>> ELSE <<"V:C08.new_variable">>)
  IN [steps |-> stepTags,
      fl    |-> [j \in 1..(k-1) |-> SortedSeq(pj[j].fl)],
      c11   |-> c11,
      nf    |-> nfTags, nffl |-> SortedSeq(nfj.fl),
      e2e   |-> e2eTags, e2efl |-> SortedSeq(e2e.fl),
      kf1   |-> kfAny,
      idv   |-> IdentityVerdict(sf[1], Strip(c.norm)),
      \* per-step identity (events the harness marks with stepid): every recorded rewrite step whose two sides lie in the
      \* rational-function fragment is compared on the 9^k identity grid, so a step that is unsound only away from the
      \* soundness grid, or two unsound steps that compensate each other end to end, are still seen
      stepidv |-> [j \in 1..(k-1) |-> IF c.stepid /\ sf[j] # sf[j+1] THEN IdentityVerdict(sf[j], sf[j+1]) ELSE "off"],
      nfidv |-> IF c.stepid THEN IdentityVerdict(sf[k], Strip(c.nf)) ELSE "off",
      truthful |-> \A j \in {1, k} \cup {g \in 1..k : g % 8 = 0} : TruthfulFlags(fs[j])]

Init == blk \in 1..NBLK /\ i = 0
Next == i = 0 /\ i' \in { g \in 1..N : (g % NBLK) + 1 = blk } /\ UNCHANGED blk
Spec == Init /\ [][Next]_<<blk,i>>

\* one invariant: judge the event once, print the verdict, and check the design-level clause
Judged == i = 0 \/ LET v == Verdict(Cases[i]) IN
   /\ PrintT(ToJson([i |-> Cases[i].i, v |-> v]))
   /\ \A j \in 1..Len(v.steps) : \A t \in 1..Len(v.steps[j]) : v.steps[j][t] # "D:model_step_unsound"
=============================================================================
