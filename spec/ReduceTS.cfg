SPECIFICATION Spec
CONSTANTS
  PushNegationInward = FALSE
INVARIANT FlagsTruthful
INVARIANT Bounded
INVARIANT EndsRuleFree
PROPERTY StepsSound
PROPERTY Terminates
CHECK_DEADLOCK FALSE
