------------------------------ MODULE ReduceTS ------------------------------
(***************************************************************************)
(* Simplification as a genuine TRANSITION SYSTEM (design level, C08/C11):  *)
(* the state is the current expression (with its memo flags) of one        *)
(* _fully_reduce loop, one transition = one _take_reduction_step of the    *)
(* model SmReduce.  The initial states are the rule universe fed as data   *)
(* (IOEnv.TRACE_FILE: one plain tree per line; TLC cannot build 10^4       *)
(* nested records as a constant).                                          *)
(*                                                                         *)
(* Checked by TLC on the MODEL, independently of the implementation:       *)
(*   StepsSound     (action property) every transition preserves the       *)
(*                  value and never shrinks the domain on the grid -       *)
(*                  except the named finding KF-1, which is counted        *)
(*   FlagsTruthful  (invariant) a flagged node is rule-free                *)
(*   Bounded        (invariant) steps <= 2*size0^2 + 10                    *)
(*   Terminates     (liveness, under weak fairness of Step, NO state       *)
(*                  constraint) <>[] reduced: a cycle of rules would be a  *)
(*                  lasso; together with Bounded this is C11's             *)
(*                  "without cycles, in quadratically many steps"          *)
(*   EndsRuleFree   (invariant) once flagged, no rule applies anywhere     *)
(***************************************************************************)
EXTENDS SmReduce, Json, IOUtils, TLCExt

CONSTANT PushNegationInward   \* MUTANT when TRUE: an extra rule Negation(Reciprocal u) => Reciprocal(Negation u), the inverse of R2 (a loop)

VARIABLES e, steps, size0, src

Inputs == ndJsonDeserialize(IOEnv.TRACE_FILE)
vars == <<e, steps, size0, src>>

Grid1 == {Q(-2,1), Q(-1,1), Q(0,1), Q(1,2), Q(1,1), Q(2,1)}
PointsOf(x) == [Vars(x) -> Grid1]

RECURSIVE ActNodeTS(_)
ActNodeTS(x) ==
  IF x.red \/ IsLeaf(x) THEN x
  ELSE IF ~HasVars(x) /\ ~x.ef /\ Val(x, <<>>).k # "undef" THEN x
  ELSE LET j == FirstIdx(Kids(x), LAMBDA c: ~c.red) IN IF j # 0 THEN ActNodeTS(Kids(x)[j]) ELSE x
IsKF1(x) == LET n == ActNodeTS(x) IN
   StepR(x).rule = "T2" /\ n.op = "NthRoot" /\ n.a.op = "NthPower" /\ n.k % 2 = 0 /\ n.a.k % 2 = 0

Init == /\ src \in 1..Len(Inputs)
        /\ e = Fresh(Inputs[src].t)
        /\ steps = 0
        /\ size0 = Size(Inputs[src].t)
Next == /\ ~e.red
        /\ e' = IF PushNegationInward /\ e.op = "Negation" /\ e.a.op = "Reciprocal"
                THEN FUn("Reciprocal", FUn("Negation", e.a.a)) ELSE Step(e)
        /\ steps' = steps + 1
        /\ UNCHANGED <<size0, src>>
Spec == Init /\ [][Next]_vars /\ WF_vars(Next)

SoundPair(a, b) == \A p \in PointsOf(a) : StepSoundAt(a, b, p)
\* [][...]_vars : every step is sound, or it is the named finding (rule T2 with even n and m)
StepsSound == [][IsKF1(e) \/ SoundPair(e, e')]_vars
FlagsTruthful == TruthfulFlags(e)
Bounded == steps <= 2 * size0 * size0 + 10
EndsRuleFree == e.red => NoRuleApplies(e)
Terminates == <>[](e.red)
ViewNoSteps == <<e, src>>      \* hides the step counter: a cycle of forms becomes a cycle of states (a lasso for Terminates)
=============================================================================
