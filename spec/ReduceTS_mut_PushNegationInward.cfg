SPECIFICATION Spec
CONSTANTS
  PushNegationInward = TRUE
INVARIANT FlagsTruthful
INVARIANT Bounded
INVARIANT EndsRuleFree
PROPERTY StepsSound
PROPERTY Terminates
CHECK_DEADLOCK FALSE
