SPECIFICATION Spec
CONSTANTS
  PushNegationInward = TRUE
VIEW ViewNoSteps
PROPERTY Terminates
CHECK_DEADLOCK FALSE
