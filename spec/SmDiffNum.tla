----------------------------- MODULE SmDiffNum -----------------------------
(***************************************************************************)
(* OPERATIONAL MODEL of numeric differentiation, one operator per method:  *)
(*   Fw  = Expression._numeric_partial          (forward mode)             *)
(*   Rv  = Expression._compute_numeric_partials (reverse mode: multiplier  *)
(*         passed down, NumericPartialsAccumulator as a function           *)
(*         name |-> running sum)                                           *)
(*   *Formula* = the _numeric_partial_formula* methods, which re-read      *)
(*         values through _evaluate (memo hits) exactly like the code.     *)
(* The memo is threaded through every call, exceptions abort the call and  *)
(* leave the memo entries written so far.                                  *)
(***************************************************************************)
EXTENDS SmEval

CONSTANTS
  PowerShortCircuitChecksExponent,  \* the "base evaluates to 1" short-cut still evaluates the exponent (fix of D2)
  AccumulatorAdds                   \* accumulator.add_to adds to the existing entry (instead of overwriting)

Bind(r, F(_,_)) == IF IsErr(r.v) THEN r ELSE F(r.v, r.m)
Idx(s) == [j \in 1..Len(s) |-> j]
Ln(x) == MfLogarithm(x, EulerE)          \* mf.logarithm(x, base = math.e)

\* ---- _numeric_partial_formula(point, multiplier) of the unary nodes
UnFormula(h,i,m,p,mult) == LET n == h[i] IN
  CASE n.op = "Negation"   -> R(MfNegation(mult), m)
    [] n.op = "Reciprocal" -> Bind(Ev(h,n.a,m,p), LAMBDA iv, m1:
                                 R(MfNegation(MfDivide(mult, MfNthPower(iv, 2))), m1))
    [] n.op = "NthPower"   -> IF n.k = 1 THEN R(mult, m)
                              ELSE Bind(Ev(h,n.a,m,p), LAMBDA iv, m1:
                                 R(MfMultiply(<<QI(n.k), MfNthPower(iv, n.k - 1), mult>>), m1))
    [] n.op = "NthRoot"    -> IF n.k = 1 THEN R(mult, m)
                              ELSE Bind(Ev(h,i,m,p), LAMBDA sv, m1:        \* self._evaluate(point)
                                 R(MfDivide(mult, MfMultiply(<<QI(n.k), MfNthPower(sv, n.k - 1)>>)), m1))
    [] n.op = "Exponential" -> IF n.b.k = "q" /\ IsOne(n.b) THEN R(Q0, m)
                              ELSE Bind(Ev(h,i,m,p), LAMBDA sv, m1:
                                 IF n.b.k = "e" THEN R(MfMultiply(<<sv, mult>>), m1)
                                 ELSE R(MfMultiply(<<Ln(Lit(n.b)), sv, mult>>), m1))
    [] n.op = "Logarithm"  -> Bind(Ev(h,n.a,m,p), LAMBDA iv, m1:
                                 IF n.b.k = "e" THEN R(MfDivide(mult, iv), m1)
                                 ELSE R(MfDivide(mult, MfMultiply(<<Ln(Lit(n.b)), iv>>)), m1))
    [] n.op = "Cosine"     -> Bind(Ev(h,n.a,m,p), LAMBDA iv, m1: R(MfMultiply(<<MfNegation(MfSine(iv)), mult>>), m1))
    [] n.op = "Sine"       -> Bind(Ev(h,n.a,m,p), LAMBDA iv, m1: R(MfMultiply(<<MfCosine(iv), mult>>), m1))

\* ---- Divide / Power: _numeric_partial_formula_left / _right
FormulaLeft(h,i,m,p,mult) == LET n == h[i] IN
  IF n.op = "Divide" THEN Bind(Ev(h,n.r,m,p), LAMBDA rv, m1: R(MfDivide(mult, rv), m1))
  ELSE \* Power
       Bind(Ev(h,n.l,m,p), LAMBDA lv, m1: Bind(Ev(h,n.r,m1,p), LAMBDA rv, m2:
          R(MfMultiply(<<rv, MfPower(lv, MfMinus(rv, Q1)), mult>>), m2)))
FormulaRight(h,i,m,p,mult) == LET n == h[i] IN
  IF n.op = "Divide" THEN Bind(Ev(h,n.l,m,p), LAMBDA lv, m1: Bind(Ev(h,n.r,m1,p), LAMBDA rv, m2:
          R(MfMultiply(<<MfNegation(MfDivide(lv, MfNthPower(rv, 2))), mult>>), m2)))
  ELSE Bind(Ev(h,n.l,m,p), LAMBDA lv, m1: Bind(Ev(h,i,m1,p), LAMBDA sv, m2:
          R(MfMultiply(<<Ln(lv), sv, mult>>), m2)))

\* verification as the differentiation methods do it (same _verify_domain_constraints)
VerifyD(n, vs) == IF VerifyBeforeFormula THEN Verify(n, vs) ELSE Q1
\* turn an "unk" domain verdict into an "unk" result (unless an exception is certain anyway)
Guard(c, r) == IF c.k = "unk" /\ ~IsErr(r.v) THEN R(Unk, r.m) ELSE r

\* (not self._left._variable_names) and self._left._evaluate(point) == 1
\* returns [hit |-> BOOLEAN or "unk"..., r |-> R] ; modelled as a value: "yes" / "no" / error result
ShortCircuit(h,i,m,p) == LET n == h[i] IN
  IF HVars(h, n.l) # {} THEN [sc |-> "no", r |-> R(Q0, m)]
  ELSE LET lv == Ev(h, n.l, m, p) IN
       IF IsErr(lv.v) THEN [sc |-> "err", r |-> lv]
       ELSE IF IsOne(lv.v) THEN [sc |-> "yes", r |-> lv]
       ELSE IF IsQ(lv.v) THEN [sc |-> "no", r |-> lv]
       ELSE [sc |-> "unk", r |-> lv]

\* ---- forward mode
RECURSIVE Fw(_,_,_,_,_)
Fw(h,i,v,m,p) == LET n == h[i] IN
  CASE n.op = "Variable" -> R(IF n.name = v THEN Q1 ELSE Q0, m)
    [] n.op = "Constant" -> R(Q0, m)
    [] n.op = "Add" ->
         FoldLeft(LAMBDA acc, c: Bind(acc, LAMBDA s, m1: Bind(Fw(h,c,v,m1,p), LAMBDA d, m2: R(QAdd(s,d), m2))),
                  R(Q0, m), n.args)
    [] n.op = "Minus" ->
         Bind(Fw(h,n.l,v,m,p), LAMBDA a, m1: Bind(Fw(h,n.r,v,m1,p), LAMBDA b, m2: R(MfMinus(a,b), m2)))
    [] n.op = "Multiply" ->
         LET ks == EvKids(h, n.args, m, p) IN
         IF ks.err.k # "none" THEN R(ks.err, ks.m)
         ELSE FoldLeft(LAMBDA acc, j: Bind(acc, LAMBDA s, m1: Bind(Fw(h, n.args[j], v, m1, p), LAMBDA d, m2:
                           R(QAdd(s, MfMultiply(<<d>> \o SeqWithout(ks.vs, j))), m2))),
                       R(Q0, ks.m), Idx(n.args))
    [] n.op = "Divide" ->
         LET ks == EvKids(h, <<n.l, n.r>>, m, p) IN
         IF ks.err.k # "none" THEN R(ks.err, ks.m)
         ELSE LET c == VerifyD(n, ks.vs) IN
              IF c.k = "undef" THEN R(Undef, ks.m)
              ELSE Guard(c,
                   Bind(Fw(h,n.l,v,ks.m,p), LAMBDA lp, m1: Bind(Fw(h,n.r,v,m1,p), LAMBDA rp, m2:
                   Bind(FormulaLeft(h,i,m2,p,lp), LAMBDA a, m3: Bind(FormulaRight(h,i,m3,p,rp), LAMBDA b, m4:
                        R(MfAdd(<<a,b>>), m4))))))
    [] n.op = "Power" ->
         LET sc == ShortCircuit(h,i,m,p) IN
         IF sc.sc = "err" THEN sc.r
         ELSE IF sc.sc = "unk" THEN R(Unk, sc.r.m)
         ELSE IF sc.sc = "yes" THEN
              (IF PowerShortCircuitChecksExponent
               THEN Bind(Ev(h, n.r, sc.r.m, p), LAMBDA rv, m1: R(Q0, m1))
               ELSE R(Q0, sc.r.m))
         ELSE LET ks == EvKids(h, <<n.l, n.r>>, sc.r.m, p) IN
              IF ks.err.k # "none" THEN R(ks.err, ks.m)
              ELSE LET c == VerifyD(n, ks.vs) IN
                   IF c.k = "undef" THEN R(Undef, ks.m)
                   ELSE Guard(c,
                        Bind(Fw(h,n.l,v,ks.m,p), LAMBDA lp, m1: Bind(Fw(h,n.r,v,m1,p), LAMBDA rp, m2:
                        Bind(FormulaLeft(h,i,m2,p,lp), LAMBDA a, m3: Bind(FormulaRight(h,i,m3,p,rp), LAMBDA b, m4:
                             R(QAdd(a,b), m4))))))
    [] OTHER -> \* unary nodes
         Bind(Ev(h,n.a,m,p), LAMBDA iv, m1:
            LET c == VerifyD(n, <<iv>>) IN
            IF c.k = "undef" THEN R(Undef, m1)
            ELSE Guard(c, Bind(Fw(h,n.a,v,m1,p), LAMBDA ip, m2: UnFormula(h,i,m2,p,ip))))

\* ---- reverse mode; state = [acc, m, err]
RS(acc,m,err) == [acc |-> acc, m |-> m, err |-> err]
AddTo(acc, x, c) == [acc EXCEPT ![x] = IF AccumulatorAdds THEN QAdd(@, c) ELSE c]
\* run a value-producing step; on an exception stop the traversal
RBind(s, r, F(_,_)) == IF IsErr(r.v) THEN RS(s.acc, r.m, r.v) ELSE F(r.v, r.m)

RECURSIVE Rv(_,_,_,_,_)
\* s = current [acc, m, err]; returns the state after visiting node i with multiplier mult
Rv(h,i,mult,s,p) ==
  IF s.err.k # "none" THEN s ELSE
  LET n == h[i] m == s.m IN
  CASE n.op = "Variable" -> RS(AddTo(s.acc, n.name, mult), m, None)
    [] n.op = "Constant" -> s
    [] n.op = "Add" -> FoldLeft(LAMBDA st, c: Rv(h,c,mult,st,p), s, n.args)
    [] n.op = "Minus" -> Rv(h, n.r, MfNegation(mult), Rv(h, n.l, mult, s, p), p)
    [] n.op = "Multiply" ->
         LET ks == EvKids(h, n.args, m, p) IN
         IF ks.err.k # "none" THEN RS(s.acc, ks.m, ks.err)
         ELSE FoldLeft(LAMBDA st, j: Rv(h, n.args[j], MfMultiply(<<mult>> \o SeqWithout(ks.vs, j)), st, p),
                       RS(s.acc, ks.m, None), Idx(n.args))
    [] n.op \in {"Divide", "Power"} ->
         LET sc == IF n.op = "Power" THEN ShortCircuit(h,i,m,p) ELSE [sc |-> "no", r |-> R(Q0, m)] IN
         IF sc.sc = "err" THEN RS(s.acc, sc.r.m, sc.r.v)
         ELSE IF sc.sc = "unk" THEN RS(s.acc, sc.r.m, Unk)
         ELSE IF sc.sc = "yes" THEN
              (IF PowerShortCircuitChecksExponent
               THEN RBind(s, Ev(h, n.r, sc.r.m, p), LAMBDA rv, m1: RS(s.acc, m1, None))
               ELSE RS(s.acc, sc.r.m, None))
         ELSE LET ks == EvKids(h, <<n.l, n.r>>, sc.r.m, p) IN
              IF ks.err.k # "none" THEN RS(s.acc, ks.m, ks.err)
              ELSE LET c == VerifyD(n, ks.vs) IN
                   IF c.k = "undef" THEN RS(s.acc, ks.m, Undef)
                   ELSE IF c.k = "unk" THEN RS(s.acc, ks.m, Unk)
                   ELSE RBind(s, FormulaLeft(h,i,ks.m,p,mult), LAMBDA ml, m1:
                        RBind(s, FormulaRight(h,i,m1,p,mult), LAMBDA mr, m2:
                           Rv(h, n.r, mr, Rv(h, n.l, ml, RS(s.acc, m2, None), p), p)))
    [] OTHER ->
         RBind(s, Ev(h,n.a,m,p), LAMBDA iv, m1:
            LET c == VerifyD(n, <<iv>>) IN
            IF c.k = "undef" THEN RS(s.acc, m1, Undef)
            ELSE IF c.k = "unk" THEN RS(s.acc, m1, Unk)
            ELSE RBind(s, UnFormula(h,i,m1,p,mult), LAMBDA nm, m2: Rv(h, n.a, nm, RS(s.acc, m2, None), p)))

\* Expression._numeric_partials(point): reset, traverse with multiplier 1, read back the variables of the root
\* result: [v |-> function name -> value  or an error value, m |-> memo]
NumericPartials(h,root,m,p) ==
  LET names == HVars(h, root)
      s0 == RS([x \in names |-> Q0], Reset(h,root,m), None)
      s  == Rv(h, root, Q1, s0, p)
  IN IF s.err.k # "none" THEN R(s.err, s.m) ELSE R([k |-> "grad", g |-> s.acc], s.m)

\* ---- public routes (late / numeric)
LatePartialAt(h,root,v,m,p) == Fw(h, root, v, Reset(h,root,m), p)          \* Partial.at with _synthetic_partial = None
Component(g, v) == IF v \in DOMAIN g THEN g[v] ELSE Q0                      \* LocatedDifferential.component
LocatedComponent(h,root,v,m,p) ==                                           \* LocatedDifferential(e,p).component(v)
  LET r == NumericPartials(h,root,m,p) IN IF IsErr(r.v) \/ r.v.k = "unk" THEN r ELSE R(Component(r.v.g, v), r.m)
LateDifferentialAtComponent(h,root,v,m,p) ==                                \* Differential(e).at(p).component(v)
  LET r0 == AtPoint(h,root,m,p) IN IF IsErr(r0.v) THEN r0 ELSE LocatedComponent(h,root,v,r0.m,p)
=============================================================================
