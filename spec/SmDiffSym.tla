----------------------------- MODULE SmDiffSym -----------------------------
(***************************************************************************)
(* OPERATIONAL MODEL of symbolic differentiation, node for node as the     *)
(* implementation builds it (the exact shape matters: it is what the       *)
(* rewriter is then run on):                                               *)
(*   SynFw(e,v)   Expression._synthetic_partial           (forward route,  *)
(*                used by Partial / Derivative)                            *)
(*   SynRv(e)     Expression._synthetic_partials          (reverse route   *)
(*                with SYMBOLIC multipliers and the SyntheticPartials-     *)
(*                Accumulator, used by Differential(compute_early=True))   *)
(* The new nodes are fresh (flags off); sub-expressions of the original    *)
(* are embedded BY REFERENCE, i.e. with whatever memo flags they carry.    *)
(***************************************************************************)
EXTENDS SmReduce

FC(n) == FConst(QI(n))
IsBaseE(b) == b.k = "e"
IsBaseOne(b) == b.k = "q" /\ IsOne(b)
FLn(b) == FBUn("Logarithm", FConst(b), EulerE)       \* Logarithm(Constant(self.base), base = math.e)

\* _synthetic_partial_formula(multiplier) of the unary nodes
SynUnFormula(e, m) ==
  CASE e.op = "Negation"   -> FUn("Negation", m)
    [] e.op = "Reciprocal" -> FUn("Negation", FBin("Divide", m, FKUn("NthPower", e.a, 2)))
    [] e.op = "NthPower"   -> IF e.k = 1 THEN m ELSE FNary("Multiply", <<FC(e.k), FKUn("NthPower", e.a, e.k - 1), m>>)
    [] e.op = "NthRoot"    -> IF e.k = 1 THEN m
                              ELSE FBin("Divide", m, FNary("Multiply", <<FC(e.k), FKUn("NthPower", e, e.k - 1)>>))
    [] e.op = "Exponential" -> IF IsBaseOne(e.b) THEN FC(0)
                              ELSE IF IsBaseE(e.b) THEN FNary("Multiply", <<e, m>>)
                              ELSE FNary("Multiply", <<FLn(e.b), e, m>>)
    [] e.op = "Logarithm"  -> IF IsBaseE(e.b) THEN FBin("Divide", m, e.a)
                              ELSE FBin("Divide", m, FNary("Multiply", <<FLn(e.b), e.a>>))
    [] e.op = "Cosine"     -> FNary("Multiply", <<FUn("Negation", FUn("Sine", e.a)), m>>)
    [] e.op = "Sine"       -> FNary("Multiply", <<FUn("Cosine", e.a), m>>)
\* Divide / Power: _synthetic_partial_formula_left / _right
SynLeft(e, m) ==
  IF e.op = "Divide" THEN FBin("Divide", m, e.r)
  ELSE FNary("Multiply", <<e.r, FBin("Power", e.l, FBin("Minus", e.r, FC(1))), m>>)
SynRight(e, m) ==
  IF e.op = "Divide" THEN FNary("Multiply", <<FUn("Negation", FBin("Divide", e.l, FKUn("NthPower", e.r, 2))), m>>)
  ELSE FNary("Multiply", <<FBUn("Logarithm", e.l, EulerE), e, m>>)

RECURSIVE SynFw(_,_)
SynFw(e, v) ==
  CASE e.op = "Variable" -> IF e.name = v THEN FC(1) ELSE FC(0)
    [] e.op = "Constant" -> FC(0)
    [] e.op = "Add"      -> FNary("Add", [j \in 1..Len(e.args) |-> SynFw(e.args[j], v)])
    [] e.op = "Multiply" -> FNary("Add", [j \in 1..Len(e.args) |->
                                FNary("Multiply", <<SynFw(e.args[j], v)>> \o SeqWithout(e.args, j))])
    [] e.op = "Minus"    -> FBin("Minus", SynFw(e.l, v), SynFw(e.r, v))
    [] e.op \in {"Divide", "Power"} -> FNary("Add", <<SynLeft(e, SynFw(e.l, v)), SynRight(e, SynFw(e.r, v))>>)
    [] OTHER -> SynUnFormula(e, SynFw(e.a, v))

\* reverse route; acc is a function name -> expression or NoneE ("not yet contributed")
SynAddTo(acc, x, c) == [acc EXCEPT ![x] = IF @.op = "none" THEN c ELSE FNary("Add", <<@, c>>)]   \* existing + contribution
RECURSIVE SynRvGo(_,_,_)
SynRvGo(e, m, acc) ==
  CASE e.op = "Variable" -> SynAddTo(acc, e.name, m)
    [] e.op = "Constant" -> acc
    [] e.op = "Add"      -> FoldLeft(LAMBDA a, c: SynRvGo(c, m, a), acc, e.args)
    [] e.op = "Multiply" -> FoldLeft(LAMBDA a, j: SynRvGo(e.args[j], FNary("Multiply", <<m>> \o SeqWithout(e.args, j)), a),
                                     acc, [j \in 1..Len(e.args) |-> j])
    [] e.op = "Minus"    -> SynRvGo(e.r, FUn("Negation", m), SynRvGo(e.l, m, acc))
    [] e.op \in {"Divide", "Power"} -> SynRvGo(e.r, SynRight(e, m), SynRvGo(e.l, SynLeft(e, m), acc))
    [] OTHER -> SynRvGo(e.a, SynUnFormula(e, m), acc)
\* Expression._synthetic_partials(): for every variable of e (absent contributions read back as Constant(0))
SynRv(e) == LET names == Vars(e)
                acc == SynRvGo(e, FC(1), [x \in names |-> NoneE])
            IN [x \in names |-> IF acc[x].op = "none" THEN FC(0) ELSE acc[x]]

\* what the public objects hand out
PartialAsExpr(e, v, budget) == Normalize(SynFw(e, v), budget)                       \* Partial / Derivative .as_expression()
EarlyDifferentialPartials(e, budget) == LET s == SynRv(e) IN [x \in DOMAIN s |-> Normalize(s[x], budget)]
=============================================================================
