------------------------------- MODULE SmEval -------------------------------
(***************************************************************************)
(* OPERATIONAL MODEL of evaluation, structured like the implementation:    *)
(*  - math_functions.py line by line (Mf..), with the Python-level hazards  *)
(*    modelled as PyErr (math.log of x <= 0 -> ValueError, ...);           *)
(*  - per-node _verify_domain_constraints (Verify) and _value_formula      *)
(*    (Formula): the code guards twice, so does the model;                 *)
(*  - _evaluate on a heap (DAG) with the per-node value memo threaded      *)
(*    through the recursion: children left to right, the first exception   *)
(*    aborts the call and LEAVES the memo entries written so far;          *)
(*  - _reset_evaluation_cache (Reset) and the public entry Expression.at.  *)
(* Mutation constants (TRUE in the faithful model) let TLC demonstrate     *)
(* that each mechanism is needed (the *_mut configs must FAIL).            *)
(***************************************************************************)
EXTENDS SmSem

CONSTANTS
  VerifyBeforeFormula,   \* nodes call _verify_domain_constraints before the formula
  ResetRecurses,         \* _reset_evaluation_cache descends into all children
  ResetStopsAtUncached   \* MUTANT when TRUE: the reset returns at a node whose own value is not cached ("nothing cached beneath it":
                         \* false after an evaluation that was aborted by an exception - seeds C02_r3mut1 C03_r3mut1 C14_r3mut1)

None == [k |-> "none"]
IsErr(v) == v.k \in {"undef", "missing", "pyerr"}       \* an exception in the implementation
R(v,m) == [v |-> v, m |-> m]

\* ---- math_functions.py
MfAdd(vs)        == SumSeq(vs)                                   \* float(sum(args))
MfMinus(x,y)     == QSub(x,y)
MfNegation(x)    == QNeg(x)
MfMultiply(vs)   == ProdSeq(vs)                                  \* early "return 0" at the first zero = the product
MfDivide(x,y)    == IF IsZero(y) THEN Undef ELSE QDiv(x,y)       \* both y == 0 branches raise DomainError
MfReciprocal(x)  == IF IsZero(x) THEN Undef ELSE QInv(x)
MfPower(x,y)     == IF IsQ(x) /\ x.n = 0 THEN Undef
                    ELSE IF IsQ(x) /\ x.n < 0 THEN Undef
                    ELSE QPowQ(x,y)                              \* float(x ** y), x > 0
MfNthPower(x,n)  == IF n <= 0 THEN Undef ELSE QPow(x,n)
MfNthRoot(x,n)   == IF n <= 0 THEN Undef
                    ELSE IF n = 1 THEN x
                    ELSE IF ~IsQ(x) THEN QRoot(x,n)
                    ELSE IF x.n > 0 THEN QRoot(x,n)              \* math.sqrt / math.cbrt / x ** (1/n)
                    ELSE IF x.n = 0 THEN Undef
                    ELSE IF n = 2 THEN Undef
                    ELSE IF n = 3 THEN QNeg(QRoot(QNeg(x),3))    \* - math.cbrt(-x)
                    ELSE IF n % 2 = 0 THEN Undef
                    ELSE QNeg(QRoot(QNeg(x),n))                  \* - ((-x) ** (1/n))
MfExponential(x,b) == IF b.k = "q" /\ b.n <= 0 THEN Undef ELSE QExpB(b,x)
MfLogarithm(x,b) == IF b.k = "q" /\ b.n <= 0 THEN Undef
                    ELSE IF b.k = "q" /\ IsOne(b) THEN Undef
                    ELSE IF IsQ(x) /\ x.n <= 0 THEN PyErr("ValueError")   \* math.log(x, base): math domain error
                    ELSE QLogB(b,x)
MfCosine(x)      == QCos(x)
MfSine(x)        == QSin(x)

\* ---- per-node domain verification (TRUE = passes, "undef"/"unk" otherwise) and value formula
\* n is a node record (only op and parameters are read), vs the child values (all defined reals)
Verify(n,vs) ==
  CASE n.op \in {"Divide"}     -> IF IsZero(vs[2]) THEN Undef ELSE IF IsQ(vs[2]) \/ vs[2].k = "oor" THEN Q1 ELSE Unk
    [] n.op = "Reciprocal"     -> IF IsZero(vs[1]) THEN Undef ELSE IF IsQ(vs[1]) \/ vs[1].k = "oor" THEN Q1 ELSE Unk
    [] n.op = "Power"          -> IF IsQ(vs[1]) THEN (IF vs[1].n <= 0 THEN Undef ELSE Q1) ELSE Unk
    [] n.op = "NthRoot"        -> IF n.k = 1 THEN Q1
                                  ELSE IF IsQ(vs[1]) THEN
                                       (IF vs[1].n = 0 THEN Undef ELSE IF n.k % 2 = 0 /\ vs[1].n < 0 THEN Undef ELSE Q1)
                                  ELSE IF vs[1].k = "oor" /\ n.k % 2 = 1 THEN Q1 ELSE Unk
    [] n.op = "Logarithm"      -> IF IsQ(vs[1]) THEN (IF vs[1].n <= 0 THEN Undef ELSE Q1) ELSE Unk
    [] OTHER -> Q1
Formula(n,vs) ==
  CASE n.op = "Add"         -> MfAdd(vs)
    [] n.op = "Multiply"    -> MfMultiply(vs)
    [] n.op = "Minus"       -> MfMinus(vs[1],vs[2])
    [] n.op = "Divide"      -> MfDivide(vs[1],vs[2])
    [] n.op = "Power"       -> MfPower(vs[1],vs[2])
    [] n.op = "Negation"    -> MfNegation(vs[1])
    [] n.op = "Reciprocal"  -> MfReciprocal(vs[1])
    [] n.op = "NthPower"    -> MfNthPower(vs[1], n.k)
    [] n.op = "NthRoot"     -> MfNthRoot(vs[1], n.k)
    [] n.op = "Exponential" -> MfExponential(vs[1], n.b)
    [] n.op = "Logarithm"   -> MfLogarithm(vs[1], n.b)
    [] n.op = "Cosine"      -> MfCosine(vs[1])
    [] n.op = "Sine"        -> MfSine(vs[1])
\* verify + formula as one step of a node, given defined child values
NodeValue(n,vs) == LET c == IF VerifyBeforeFormula THEN Verify(n,vs) ELSE Q1 IN
                   IF c.k = "undef" THEN Undef ELSE
                   LET f == Formula(n,vs) IN
                   IF c.k = "unk" /\ ~IsErr(f) THEN Unk ELSE f

\* ---- Point.coordinate
Coord(p,x) == IF x \in DOMAIN p THEN Lit(p[x]) ELSE Missing

\* ---- _reset_evaluation_cache: clears this node, then every child (top-down, the whole sub-DAG)
RECURSIVE Reset(_,_,_)
Reset(h,i,m) == LET n == h[i] IN
   IF n.op \in LeafOps \/ (ResetStopsAtUncached /\ m[i] = None) THEN m
   ELSE LET m1 == [m EXCEPT ![i] = None] IN
        IF ResetRecurses THEN FoldLeft(LAMBDA acc, c: Reset(h,c,acc), m1, HKids(n)) ELSE m1

\* ---- _evaluate
RECURSIVE Ev(_,_,_,_)
\* evaluate a list of children left to right; stops at the first exception
EvKids(h,ks,m,p) ==
   FoldLeft(LAMBDA acc, c:
              IF acc.err.k # "none" THEN acc
              ELSE LET r == Ev(h,c,acc.m,p) IN
                   IF IsErr(r.v) THEN [vs |-> acc.vs, m |-> r.m, err |-> r.v]
                   ELSE [vs |-> Append(acc.vs, r.v), m |-> r.m, err |-> None],
            [vs |-> <<>>, m |-> m, err |-> None], ks)
Ev(h,i,m,p) == LET n == h[i] IN
   IF n.op = "Variable" THEN R(Coord(p, n.name), m)
   ELSE IF n.op = "Constant" THEN R(Lit(n.val), m)
   ELSE IF m[i].k # "none" THEN R(m[i], m)                 \* if self._value is not None: return self._value
   ELSE LET ks == EvKids(h, HKids(n), m, p) IN
        IF ks.err.k # "none" THEN R(ks.err, ks.m)
        ELSE LET v == NodeValue(n, ks.vs) IN
             IF IsErr(v) THEN R(v, ks.m) ELSE R(v, [ks.m EXCEPT ![i] = v])

EmptyMemo(h) == [i \in 1..Len(h) |-> None]

\* ---- Expression.at(point)  and  Expression.at(number)
AtPoint(h,root,m,p)  == Ev(h, root, Reset(h,root,m), p)
NumberPoint(h,root,r) ==                       \* get_the_single_variable_name + point_on_number_line
   LET vs == HVars(h,root) IN
   IF Cardinality(vs) = 1 THEN [x \in vs |-> r]
   ELSE IF Cardinality(vs) = 0 THEN [x \in {"whatever"} |-> r]
   ELSE <<>>                                    \* raises a bare Exception (usage error)
AtNumber(h,root,m,r) == IF Cardinality(HVars(h,root)) >= 2 THEN R(PyErr("Exception"), m)
                        ELSE AtPoint(h, root, m, NumberPoint(h,root,r))

\* the outcome class used when comparing with the reference or with the implementation
Class(v) == CASE v.k = "q" -> "num" [] v.k \in {"nx","oor"} -> "num" [] v.k = "undef" -> "DomainError"
              [] v.k = "missing" -> "CoordinateMissing" [] v.k = "pyerr" -> "PyError" [] OTHER -> "unk"
=============================================================================
