------------------------------ MODULE SmExpr ------------------------------
(***************************************************************************)
(* Expression trees of smoothmath as TLA+ records (the data model shared   *)
(* by specification, traces and harness):                                  *)
(*   [op |-> "Variable", name |-> tok]      [op |-> "Constant", val |-> V] *)
(*   [op |-> "Add"|"Multiply", args |-> <<E,...>>]          arity 0..      *)
(*   [op |-> "Minus"|"Divide"|"Power", l |-> E, r |-> E]                   *)
(*   [op |-> "Negation"|"Reciprocal"|"Cosine"|"Sine", a |-> E]             *)
(*   [op |-> "NthPower"|"NthRoot", a |-> E, k |-> int]                     *)
(*   [op |-> "Exponential"|"Logarithm", a |-> E, b |-> V]  V "q" or "e"    *)
(* Nodes of the rewriting model additionally carry the two memo flags of   *)
(* the implementation: red (_is_fully_reduced), ef (_evaluation_failed).   *)
(***************************************************************************)
EXTENDS SmNum

NaryOps == {"Add", "Multiply"}
BinOps  == {"Minus", "Divide", "Power"}
UnOps   == {"Negation", "Reciprocal", "Cosine", "Sine"}
KOps    == {"NthPower", "NthRoot"}
BOps    == {"Exponential", "Logarithm"}
LeafOps == {"Variable", "Constant"}
AllOps  == NaryOps \cup BinOps \cup UnOps \cup KOps \cup BOps \cup LeafOps

\* plain constructors (no flags)
Var(x)        == [op |-> "Variable", name |-> x]
Const(v)      == [op |-> "Constant", val |-> v]
Nary(o, as)   == [op |-> o, args |-> as]
Bin(o, l, r)  == [op |-> o, l |-> l, r |-> r]
Un(o, a)      == [op |-> o, a |-> a]
KUn(o, a, k)  == [op |-> o, a |-> a, k |-> k]
BUn(o, a, b)  == [op |-> o, a |-> a, b |-> b]

IsLeaf(e)  == e.op \in LeafOps
IsConst(e) == e.op = "Constant"
Kids(e) == CASE e.op \in LeafOps -> <<>>
             [] e.op \in NaryOps -> e.args
             [] e.op \in BinOps  -> <<e.l, e.r>>
             [] OTHER -> <<e.a>>

RECURSIVE Vars(_)
Vars(e) == IF e.op = "Variable" THEN {e.name}
           ELSE IF e.op = "Constant" THEN {}
           ELSE UNION { Vars(Kids(e)[j]) : j \in 1..Len(Kids(e)) }
RECURSIVE Size(_)
Size(e) == 1 + FoldLeft(LAMBDA acc, c: acc + Size(c), 0, Kids(e))
RECURSIVE Depth(_)
Depth(e) == 1 + FoldLeft(LAMBDA acc, c: IF Depth(c) > acc THEN Depth(c) ELSE acc, 0, Kids(e))

\* what every constructor guarantees about an expression it accepted (C16)
RECURSIVE WellFormed(_)
WellFormed(e) ==
   /\ e.op \in AllOps
   /\ e.op \in KOps => e.k \in Nat /\ e.k >= 1
   /\ e.op \in BOps => (e.b.k = "e" \/ e.b.k = "f" \/ (e.b.k = "q" /\ e.b.n > 0))
   /\ e.op = "Logarithm" => ~(e.b.k = "q" /\ e.b.n = e.b.d)
   /\ \A j \in 1..Len(Kids(e)) : WellFormed(Kids(e)[j])

\* remove memo flags (and nothing else), so that two forms can be compared structurally
RECURSIVE Strip(_)
Strip(e) == CASE e.op = "Variable" -> Var(e.name)
              [] e.op = "Constant" -> Const(e.val)
              [] e.op \in NaryOps -> Nary(e.op, [j \in 1..Len(e.args) |-> Strip(e.args[j])])
              [] e.op \in BinOps -> Bin(e.op, Strip(e.l), Strip(e.r))
              [] e.op \in UnOps -> Un(e.op, Strip(e.a))
              [] e.op \in KOps -> KUn(e.op, Strip(e.a), e.k)
              [] OTHER -> BUn(e.op, Strip(e.a), e.b)

\* ---- heaps: an expression DAG as a sequence of nodes whose children are indices < own index
\* [op, name] [op, val] [op, args |-> <<i,..>>] [op, l, r] [op, a] [op, a, k] [op, a, b]
HKids(n) == CASE n.op \in LeafOps -> <<>>
              [] n.op \in NaryOps -> n.args
              [] n.op \in BinOps  -> <<n.l, n.r>>
              [] OTHER -> <<n.a>>
RECURSIVE Unfold(_,_)
Unfold(h, i) == LET n == h[i] IN
   CASE n.op = "Variable" -> Var(n.name)
     [] n.op = "Constant" -> Const(n.val)
     [] n.op \in NaryOps -> Nary(n.op, [j \in 1..Len(n.args) |-> Unfold(h, n.args[j])])
     [] n.op \in BinOps -> Bin(n.op, Unfold(h, n.l), Unfold(h, n.r))
     [] n.op \in UnOps -> Un(n.op, Unfold(h, n.a))
     [] n.op \in KOps -> KUn(n.op, Unfold(h, n.a), n.k)
     [] OTHER -> BUn(n.op, Unfold(h, n.a), n.b)
\* the variable-name set the implementation stores on every node (_variable_names)
RECURSIVE HVars(_,_)
HVars(h, i) == LET n == h[i] IN
   IF n.op = "Variable" THEN {n.name} ELSE IF n.op = "Constant" THEN {}
   ELSE UNION { HVars(h, HKids(n)[j]) : j \in 1..Len(HKids(n)) }
=============================================================================
