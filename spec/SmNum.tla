------------------------------ MODULE SmNum ------------------------------
(***************************************************************************)
(* Exact arithmetic for the smoothmath specification.                      *)
(*                                                                         *)
(* TLC has 32-bit integers only, so every number is a *tagged record*:     *)
(*   [k |-> "q", n |-> num, d |-> den]   an exact rational, gcd-reduced,   *)
(*                                       den > 0, |num|, den <= MAXM       *)
(*   [k |-> "nx"]     a DEFINED real whose exact value the spec cannot     *)
(*                    represent (irrational: sin 1, ln 2, 2^(1/2), e ...)  *)
(*   [k |-> "oor"]    a DEFINED real that left the MAXM guard              *)
(*   [k |-> "unk"]    definedness itself is unknown (e.g. 1/(sin 1 - c))   *)
(*   [k |-> "undef"]  certainly outside the documented domain              *)
(* and, for the OPERATIONAL model only (what Python would do):             *)
(*   [k |-> "missing"]            CoordinateMissing                        *)
(*   [k |-> "pyerr", t |-> ".."]  a foreign Python exception / bad value   *)
(* Every polymorphic value is a record with a tag because TLC raises a     *)
(* run-time error when a string is compared with a tuple or record.        *)
(***************************************************************************)
EXTENDS Integers, Sequences, FiniteSets, TLC, SequencesExt

MAXM == 30000

Abs(x) == IF x < 0 THEN -x ELSE x
RECURSIVE GCD(_,_)
GCD(a,b) == IF b = 0 THEN a ELSE GCD(b, a % b)

Q(n,d)  == [k |-> "q", n |-> n, d |-> d]
Undef   == [k |-> "undef"]
Nx      == [k |-> "nx"]
Oor     == [k |-> "oor"]
Unk     == [k |-> "unk"]
Missing == [k |-> "missing"]
PyErr(t) == [k |-> "pyerr", t |-> t]
EulerE  == [k |-> "e"]          \* the default base of Exponential / Logarithm

Q0 == Q(0,1)
Q1 == Q(1,1)
QI(i) == Q(i,1)

\* normalising constructor; the caller guarantees |n|,|d| < 2^31
Mk(n,d) == LET g  == GCD(Abs(n), Abs(d))
               s  == IF d < 0 THEN -1 ELSE 1
               nn == s * (n \div g)
               dd == s * (d \div g)
           IN IF Abs(nn) > MAXM \/ dd > MAXM THEN Oor ELSE Q(nn,dd)

IsQ(v)      == v.k = "q"
IsDefReal(v) == v.k \in {"q", "nx", "oor"}       \* certainly a real number
IsZero(v)   == IsQ(v) /\ v.n = 0
IsOne(v)    == IsQ(v) /\ v.n = 1 /\ v.d = 1
IsNegOne(v) == IsQ(v) /\ v.n = -1 /\ v.d = 1
IsInt(v)    == IsQ(v) /\ v.d = 1
IsPos(v)    == IsQ(v) /\ v.n > 0
IsNeg(v)    == IsQ(v) /\ v.n < 0
IsDyadic(v) == IsQ(v) /\ v.d \in {1,2,4,8,16,32,64,128,256,512,1024,2048,4096,8192,16384}

\* how two values that are not both "q" combine under a STRICT operation
\* (every argument must be defined for the result to be defined)
Bad1(a) == CASE a.k = "undef" -> Undef [] a.k = "unk" -> Unk [] a.k = "oor" -> Oor [] OTHER -> Nx
Bad2(a,b) == IF a.k = "undef" \/ b.k = "undef" THEN Undef
             ELSE IF a.k = "unk" \/ b.k = "unk" THEN Unk
             ELSE IF a.k = "oor" \/ b.k = "oor" THEN Oor
             ELSE Nx

QNeg(a)   == IF IsQ(a) THEN Q(-a.n, a.d) ELSE a
QAdd(a,b) == IF IsQ(a) /\ IsQ(b) THEN Mk(a.n*b.d + b.n*a.d, a.d*b.d) ELSE Bad2(a,b)
QSub(a,b) == QAdd(a, QNeg(b))
\* in real arithmetic 0 * (any defined real) = 0 exactly
QMul(a,b) == IF IsQ(a) /\ IsQ(b) THEN Mk(a.n*b.n, a.d*b.d)
             ELSE IF (IsZero(a) /\ IsDefReal(b)) \/ (IsZero(b) /\ IsDefReal(a)) THEN Q0
             ELSE Bad2(a,b)
\* 1/a : undefined at 0; a defined but unknown real may be 0, so its inverse is "unk"
QInv(a)   == CASE IsQ(a) -> (IF a.n = 0 THEN Undef ELSE Mk(a.d, a.n))
               [] a.k = "undef" -> Undef
               [] a.k = "oor" -> Oor             \* Mk yields "oor" only for non-zero values
               [] OTHER -> Unk
QDiv(a,b) == QMul(a, QInv(b))
QLt(a,b)  == a.n * b.d < b.n * a.d               \* both "q"
QCmp0(a)  == IF a.n > 0 THEN 1 ELSE IF a.n < 0 THEN -1 ELSE 0

RECURSIVE QPow(_,_)
QPow(a,k) == IF k < 0 THEN Oor                      \* (never a legal parameter; guards the recursion against mangled data)
             ELSE IF k = 0 THEN Q1 ELSE IF k = 1 THEN a
             ELSE IF ~IsQ(a) THEN Bad1(a)
             ELSE LET h == QPow(a, k \div 2) hh == QMul(h,h) IN
                  IF k % 2 = 0 THEN hh ELSE QMul(hh, a)

\* integer power with a cap, never overflows 32 bits (r <= 200, cap 40000)
RECURSIVE IPowCap(_,_)
IPowCap(r,k) == IF k = 0 THEN 1 ELSE LET h == IPowCap(r, k-1) IN IF h > 40000 THEN h ELSE h * r
\* exact integer k-th root of m >= 1, or 0 when m is not a perfect k-th power
\* (r^k <= MAXM bounds the candidates: nothing but 1 is a perfect k-th power below MAXM for k >= 15)
RMax(k) == IF k = 2 THEN 175 ELSE IF k = 3 THEN 32 ELSE IF k = 4 THEN 14 ELSE IF k <= 6 THEN 8 ELSE IF k <= 14 THEN 4 ELSE 1
IRoot(m,k) == IF m = 1 THEN 1
              ELSE IF \E r \in 2..RMax(k) : IPowCap(r,k) = m THEN CHOOSE r \in 2..RMax(k) : IPowCap(r,k) = m ELSE 0

\* the real k-th root (k >= 1), sign kept for odd k.  Domain: k = 1 everything; k >= 2: a # 0; k even: a > 0
QRoot(a,k) == IF k = 1 THEN a
              ELSE CASE IsQ(a) ->
                          IF a.n = 0 THEN Undef
                          ELSE IF a.n < 0 /\ k % 2 = 0 THEN Undef
                          ELSE LET rn == IRoot(Abs(a.n), k) rd == IRoot(a.d, k) IN
                               IF rn = 0 \/ rd = 0 THEN Nx
                               ELSE Q((IF a.n < 0 THEN -rn ELSE rn), rd)
                     [] a.k = "undef" -> Undef
                     [] a.k = "oor" -> (IF k % 2 = 1 THEN Oor ELSE Unk)
                     [] OTHER -> Unk

\* b^a for a base b that is "q" (b > 0) or EulerE
QPowRat(b,a) == \* b "q" > 0, a "q"
   IF a.n = 0 \/ IsOne(b) THEN Q1
   ELSE LET r == QRoot(b, a.d) IN            \* a.d = 1 gives r = b
        IF ~IsQ(r) THEN r
        ELSE IF a.n > 0 THEN QPow(r, a.n) ELSE QInv(QPow(r, -a.n))
QExpB(b,a) == CASE a.k = "undef" -> Undef
                [] a.k = "unk" -> Unk
                [] b.k = "e" -> (IF IsZero(a) THEN Q1 ELSE Nx)
                [] b.k = "q" -> (IF IsOne(b) THEN Q1
                                 ELSE IF IsQ(a) THEN QPowRat(b,a)
                                 ELSE Nx)
                [] OTHER -> Nx                 \* opaque float base
\* log_b(a), b "q" (b > 0, b # 1) or EulerE.  Domain a > 0.
\* exact when a = 1, or a = b^k / b = a^k for a small integer k
LogSearch(b,a) == LET K == {k \in -14..14 : k # 0} IN
   IF \E k \in K : QPowRat(b, QI(k)) = a THEN QI(CHOOSE k \in K : QPowRat(b, QI(k)) = a)
   ELSE IF \E k \in K : QPowRat(a, QI(k)) = b THEN Mk(1, CHOOSE k \in K : QPowRat(a, QI(k)) = b)
   ELSE Nx
QLogB(b,a) == CASE a.k = "undef" -> Undef
                [] a.k = "unk" -> Unk
                [] a.k \in {"nx","oor"} -> Unk          \* sign unknown
                [] OTHER -> \* a is "q"
                     IF a.n <= 0 THEN Undef
                     ELSE IF IsOne(a) THEN Q0
                     ELSE IF b.k = "q" THEN LogSearch(b,a) ELSE Nx
\* general power a^b = exp(b ln a): domain a > 0 (strict, whatever b is)
QPowQ(a,b) == CASE a.k = "undef" \/ b.k = "undef" -> Undef
                [] a.k # "q" -> Unk                     \* sign of the base unknown
                [] a.n <= 0 -> Undef
                [] b.k = "unk" -> Unk
                [] OTHER -> QExpB(a, b)
QSin(a) == IF IsZero(a) THEN Q0 ELSE IF IsQ(a) THEN Nx ELSE Bad1(a)
QCos(a) == IF IsZero(a) THEN Q1 ELSE IF IsQ(a) THEN Nx ELSE Bad1(a)
\* ln(b) for a parameter base
QLn(b) == IF b.k = "q" THEN (IF IsOne(b) THEN Q0 ELSE IF b.n <= 0 THEN Undef ELSE Nx)
          ELSE IF b.k = "e" THEN Q1 ELSE Nx

\* value of a literal (Constant.value, a base, a coordinate)
Lit(v) == IF v.k = "q" THEN v ELSE Nx            \* "e" and opaque floats are irrational for the spec

SumSeq(vs)  == FoldLeft(QAdd, Q0, vs)
ProdSeq(vs) == FoldLeft(QMul, Q1, vs)
=============================================================================
