------------------------------ MODULE SmReduce ------------------------------
(***************************************************************************)
(* OPERATIONAL MODEL of simplification ("normalization"), transcribed from *)
(* the implementation rule by rule:                                        *)
(*   Step(e)        one Expression._take_reduction_step on the root        *)
(*   the driver     flagged => return self; variable-free, not a Constant, *)
(*                  folding not failed before => fold by evaluation (or    *)
(*                  set ef); first child that is not fully reduced takes   *)
(*                  one step and the parent is REBUILT (fresh, unflagged); *)
(*                  else the first applicable reducer in list order; else  *)
(*                  set the flag                                           *)
(*   FullyReduce    the budgeted loop of _fully_reduce (give-up path:      *)
(*                  budget exhausted => flag forced on the current root)   *)
(*   NF             _normalize_fully_reduced (Add => Minus/Negation,       *)
(*                  Multiply => Divide/Reciprocal, unwrap 0/1-term nodes); *)
(*                  the terms of Add/Multiply are re-normalised by a FULL  *)
(*                  _normalize (own budget), exactly like the code         *)
(* Nodes carry the implementation's two memo flags:                        *)
(*   red = _is_fully_reduced, ef = _evaluation_failed.                     *)
(* Rule ids (Appendix B of DESIGN.md) are returned by RuleOf for coverage  *)
(* and for attributing known findings.                                     *)
(***************************************************************************)
EXTENDS SmSem

FL == [red |-> FALSE, ef |-> FALSE]
FVar(x)       == Var(x) @@ FL
FConst(v)     == Const(v) @@ FL
FNary(o, as)  == Nary(o, as) @@ FL
FBin(o, l, r) == Bin(o, l, r) @@ FL
FUn(o, a)     == Un(o, a) @@ FL
FKUn(o, a, k) == KUn(o, a, k) @@ FL
FBUn(o, a, b) == BUn(o, a, b) @@ FL

\* a plain tree as freshly constructed objects (all flags off)
RECURSIVE Fresh(_)
Fresh(e) == CASE e.op = "Variable" -> FVar(e.name)
              [] e.op = "Constant" -> FConst(e.val)
              [] e.op \in NaryOps -> FNary(e.op, [j \in 1..Len(e.args) |-> Fresh(e.args[j])])
              [] e.op \in BinOps -> FBin(e.op, Fresh(e.l), Fresh(e.r))
              [] e.op \in UnOps -> FUn(e.op, Fresh(e.a))
              [] e.op \in KOps -> FKUn(e.op, Fresh(e.a), e.k)
              [] OTHER -> FBUn(e.op, Fresh(e.a), e.b)

WithKid(e, j, c) == CASE e.op \in NaryOps -> FNary(e.op, [e.args EXCEPT ![j] = c])
                      [] e.op \in BinOps -> IF j = 1 THEN FBin(e.op, c, e.r) ELSE FBin(e.op, e.l, c)
                      [] e.op \in UnOps -> FUn(e.op, c)
                      [] e.op \in KOps -> FKUn(e.op, c, e.k)
                      [] OTHER -> FBUn(e.op, c, e.b)

RECURSIVE HasVars(_)
HasVars(e) == IF e.op = "Variable" THEN TRUE ELSE IF e.op = "Constant" THEN FALSE
              ELSE \E j \in 1..Len(Kids(e)) : HasVars(Kids(e)[j])

\* ---- constants: value tests as the code performs them (== 0, == 1, == -1, integral >= 2, > 0)
\* exact "q" values decide; a folded irrational / opaque float constant never equals 0, 1, -1 or an integer
CV(c) == c.val
IsZeroC(c)   == IsConst(c) /\ IsZero(CV(c))
IsOneC(c)    == IsConst(c) /\ IsOne(CV(c))
IsNegOneC(c) == IsConst(c) /\ IsNegOne(CV(c))
IntGE2C(c)   == IsConst(c) /\ IsInt(CV(c)) /\ CV(c).n >= 2
\* the Constant produced by evaluating the closed expression x (constant folding, constant consolidation)
ValueConst(x) == LET v == Val(x, <<>>) IN
                 IF IsQ(v) THEN FConst(v) ELSE FConst([k |-> "fold", e |-> Strip(x)])

\* ---- sequence helpers
Filter(s, P(_)) == SelectSeq(s, P)
FirstIdx(s, P(_)) == IF \E j \in 1..Len(s) : P(s[j])
                     THEN CHOOSE j \in 1..Len(s) : P(s[j]) /\ \A g \in 1..(j-1) : ~P(s[g]) ELSE 0
\* distinct keys in order of first occurrence (dict insertion order of util.group_by_key)
KeysInOrder(s, K(_)) == FoldLeft(LAMBDA acc, c: IF \E g \in 1..Len(acc) : acc[g] = K(c) THEN acc ELSE Append(acc, K(c)), <<>>, s)
HasDupKey(s, K(_)) == \E a, b \in 1..Len(s) : a # b /\ K(s[a]) = K(s[b])
InnersWithKey(s, K(_), k) == LET g == Filter(s, LAMBDA c: K(c) = k) IN [j \in 1..Len(g) |-> g[j].a]

NoneE == [op |-> "none"]
Hit(id, e) == [rule |-> id, e |-> e]
Miss == [rule |-> "", e |-> NoneE]

\* ---- the reducers, class by class, in the order of each class's _reducers list
AddReducers(e) ==
  LET as == e.args
      j  == FirstIdx(as, LAMBDA c: c.op = "Add")
      nz == Filter(as, LAMBDA c: ~IsZeroC(c))
      lg == Filter(as, LAMBDA c: c.op = "Logarithm")
      nl == Filter(as, LAMBDA c: c.op # "Logarithm")
      cs == Filter(as, IsConst)
      nc == Filter(as, LAMBDA c: ~IsConst(c))
  IN IF j # 0 THEN Hit("A1", FNary("Add", SubSeq(as,1,j-1) \o as[j].args \o SubSeq(as,j+1,Len(as))))
     ELSE IF Len(nz) # Len(as) THEN Hit("A2", FNary("Add", nz))
     ELSE IF Len(lg) >= 2 /\ HasDupKey(lg, LAMBDA c: c.b) THEN
          LET bs == KeysInOrder(lg, LAMBDA c: c.b) IN
          Hit("A3", FNary("Add", nl \o [g \in 1..Len(bs) |->
                  FBUn("Logarithm", FNary("Multiply", InnersWithKey(lg, LAMBDA c: c.b, bs[g])), bs[g])]))
     ELSE IF Len(cs) >= 2 THEN Hit("A4", FNary("Add", Append(nc, ValueConst(Nary("Add", cs)))))
     ELSE Miss

MulReducers(e) ==
  LET as  == e.args
      j   == FirstIdx(as, LAMBDA c: c.op = "Multiply")
      no  == Filter(as, LAMBDA c: ~IsOneC(c))
      ng  == Filter(as, LAMBDA c: c.op = "Negation")
      nn  == Filter(as, LAMBDA c: c.op # "Negation")
      pw  == Filter(as, LAMBDA c: c.op = "NthPower")
      rt  == Filter(as, LAMBDA c: c.op = "NthRoot")
      ex  == Filter(as, LAMBDA c: c.op = "Exponential")
      cs  == Filter(as, IsConst)
      nc  == Filter(as, LAMBDA c: ~IsConst(c))
  IN IF j # 0 THEN Hit("P1", FNary("Multiply", SubSeq(as,1,j-1) \o as[j].args \o SubSeq(as,j+1,Len(as))))
     ELSE IF \E g \in 1..Len(as) : IsZeroC(as[g]) THEN Hit("P2", FConst(Q0))
     ELSE IF Len(no) # Len(as) THEN Hit("P3", FNary("Multiply", no))
     ELSE IF Len(ng) > 0 THEN
          Hit("P4", FNary("Multiply", nn \o [g \in 1..Len(ng) |-> ng[g].a]
                                      \o (IF Len(ng) % 2 = 0 THEN <<>> ELSE <<FConst(QI(-1))>>)))
     ELSE IF Len(pw) >= 2 /\ HasDupKey(pw, LAMBDA c: c.k) THEN
          LET ks == KeysInOrder(pw, LAMBDA c: c.k) IN
          Hit("P5", FNary("Multiply", Filter(as, LAMBDA c: c.op # "NthPower") \o [g \in 1..Len(ks) |->
                  FKUn("NthPower", FNary("Multiply", InnersWithKey(pw, LAMBDA c: c.k, ks[g])), ks[g])]))
     ELSE IF Len(rt) >= 2 /\ HasDupKey(rt, LAMBDA c: c.k) THEN
          LET ks == KeysInOrder(rt, LAMBDA c: c.k) IN
          Hit("P6", FNary("Multiply", Filter(as, LAMBDA c: c.op # "NthRoot") \o [g \in 1..Len(ks) |->
                  FKUn("NthRoot", FNary("Multiply", InnersWithKey(rt, LAMBDA c: c.k, ks[g])), ks[g])]))
     ELSE IF Len(ex) >= 2 /\ HasDupKey(ex, LAMBDA c: c.b) THEN
          LET bs == KeysInOrder(ex, LAMBDA c: c.b) IN
          Hit("P7", FNary("Multiply", Filter(as, LAMBDA c: c.op # "Exponential") \o [g \in 1..Len(bs) |->
                  FBUn("Exponential", FNary("Add", InnersWithKey(ex, LAMBDA c: c.b, bs[g])), bs[g])]))
     ELSE IF Len(cs) >= 2 THEN Hit("P8", FNary("Multiply", Append(nc, ValueConst(Nary("Multiply", cs)))))
     ELSE Miss

NegReducers(e) ==
  IF e.a.op = "Negation" THEN Hit("N1", e.a.a)
  ELSE IF e.a.op = "Add" THEN Hit("N2", FNary("Add", [g \in 1..Len(e.a.args) |-> FUn("Negation", e.a.args[g])]))
  ELSE Miss
RecReducers(e) ==
  IF e.a.op = "Reciprocal" THEN Hit("R1", e.a.a)
  ELSE IF e.a.op = "Negation" THEN Hit("R2", FUn("Negation", FUn("Reciprocal", e.a.a)))
  ELSE IF e.a.op = "Multiply" THEN Hit("R3", FNary("Multiply", [g \in 1..Len(e.a.args) |-> FUn("Reciprocal", e.a.args[g])]))
  ELSE Miss
PowerReducers(e) ==
  IF IsOneC(e.r) THEN Hit("W1", e.l)
  ELSE IF IsZeroC(e.r) THEN Hit("W2", FConst(Q1))
  ELSE IF IsOneC(e.l) THEN Hit("W3", FConst(Q1))
  ELSE IF IntGE2C(e.r) THEN Hit("W4", FKUn("NthPower", e.l, CV(e.r).n))
  ELSE IF IsNegOneC(e.r) THEN Hit("W5", FUn("Reciprocal", e.l))
  ELSE IF IsConst(e.l) /\ IsPos(CV(e.l)) /\ ~IsOne(CV(e.l)) THEN Hit("W6", FBUn("Exponential", e.r, CV(e.l)))
  ELSE IF e.l.op = "Power" THEN Hit("W7", FBin("Power", e.l.l, FNary("Multiply", <<e.l.r, e.r>>)))
  ELSE IF e.r.op = "Negation" THEN Hit("W8", FUn("Reciprocal", FBin("Power", e.l, e.r.a)))
  ELSE IF e.l.op = "Reciprocal" THEN Hit("W9", FUn("Reciprocal", FBin("Power", e.l.a, e.r)))
  ELSE Miss
NthPowerReducers(e) ==
  IF e.k = 1 THEN Hit("Q1", e.a)
  ELSE IF e.a.op = "NthRoot" /\ e.a.k = e.k THEN Hit("Q2", e.a.a)
  ELSE IF e.a.op = "NthRoot" /\ GCD(e.a.k, e.k) # 1 THEN
       LET g == GCD(e.a.k, e.k) IN Hit("Q2", FKUn("NthPower", FKUn("NthRoot", e.a.a, e.a.k \div g), e.k \div g))
  ELSE IF e.a.op = "NthRoot" THEN Miss      \* the reducer returns None; the list continues, but no later rule matches a NthRoot
  ELSE IF e.a.op = "NthPower" THEN Hit("Q3", FKUn("NthPower", e.a.a, e.k * e.a.k))
  ELSE IF e.a.op = "Negation" THEN
       (IF e.k % 2 = 0 THEN Hit("Q4", FKUn("NthPower", e.a.a, e.k)) ELSE Hit("Q4", FUn("Negation", FKUn("NthPower", e.a.a, e.k))))
  ELSE IF e.a.op = "Reciprocal" THEN Hit("Q5", FUn("Reciprocal", FKUn("NthPower", e.a.a, e.k)))
  ELSE IF e.a.op = "Exponential" THEN Hit("Q6", FBUn("Exponential", FNary("Multiply", <<FConst(QI(e.k)), e.a.a>>), e.a.b))
  ELSE Miss
NthRootReducers(e) ==
  IF e.k = 1 THEN Hit("T1", e.a)
  ELSE IF e.a.op = "NthPower" THEN Hit("T2", FKUn("NthPower", FKUn("NthRoot", e.a.a, e.k), e.a.k))
  ELSE IF e.a.op = "NthRoot" THEN Hit("T3", FKUn("NthRoot", e.a.a, e.k * e.a.k))
  ELSE IF e.a.op = "Negation" /\ e.k % 2 = 1 THEN Hit("T4", FUn("Negation", FKUn("NthRoot", e.a.a, e.k)))
  ELSE IF e.a.op = "Reciprocal" THEN Hit("T5", FUn("Reciprocal", FKUn("NthRoot", e.a.a, e.k)))
  ELSE Miss
ExpReducers(e) ==
  IF e.a.op = "Logarithm" /\ e.a.b = e.b THEN Hit("X1", e.a.a)
  ELSE IF e.a.op = "Negation" THEN Hit("X2", FUn("Reciprocal", FBUn("Exponential", e.a.a, e.b)))
  ELSE Miss
LogReducers(e) ==
  IF e.a.op = "Exponential" /\ e.a.b = e.b THEN Hit("L1", e.a.a)
  ELSE IF e.a.op = "Reciprocal" THEN Hit("L2", FUn("Negation", FBUn("Logarithm", e.a.a, e.b)))
  ELSE IF e.a.op = "NthPower" /\ e.a.k % 2 = 1 THEN
       Hit("L3", FNary("Multiply", <<FConst(QI(e.a.k)), FBUn("Logarithm", e.a.a, e.b)>>))
  ELSE Miss

Reducers(e) ==
  CASE e.op = "Add" -> AddReducers(e)
    [] e.op = "Multiply" -> MulReducers(e)
    [] e.op = "Minus" -> Hit("M1", FNary("Add", <<e.l, FUn("Negation", e.r)>>))
    [] e.op = "Divide" -> Hit("D1", FNary("Multiply", <<e.l, FUn("Reciprocal", e.r)>>))
    [] e.op = "Negation" -> NegReducers(e)
    [] e.op = "Reciprocal" -> RecReducers(e)
    [] e.op = "Power" -> PowerReducers(e)
    [] e.op = "NthPower" -> NthPowerReducers(e)
    [] e.op = "NthRoot" -> NthRootReducers(e)
    [] e.op = "Exponential" -> ExpReducers(e)
    [] e.op = "Logarithm" -> LogReducers(e)
    [] e.op = "Cosine" -> IF e.a.op = "Negation" THEN Hit("C1", FUn("Cosine", e.a.a)) ELSE Miss
    [] e.op = "Sine" -> IF e.a.op = "Negation" THEN Hit("S1", FUn("Negation", FUn("Sine", e.a.a))) ELSE Miss

\* ---- one _take_reduction_step; returns [rule, e]: rule is the id of what happened at the node that acted
\* "" = returned self unchanged (flagged), "FLAG" = flag set, "F" = constant fold, "EF" prefix = folding failed first
RECURSIVE StepR(_)
StepR(e) ==
  IF e.red THEN [rule |-> "", e |-> e]
  ELSE IF IsLeaf(e) THEN [rule |-> "FLAG", e |-> [e EXCEPT !.red = TRUE]]
  ELSE LET tryFold == ~HasVars(e) /\ ~e.ef
           cv == IF tryFold THEN Val(e, <<>>) ELSE Undef
       IN IF tryFold /\ cv.k # "undef" THEN [rule |-> "F", e |-> ValueConst(e)]
          ELSE LET e1 == IF tryFold THEN [e EXCEPT !.ef = TRUE] ELSE e
                   ks == Kids(e1)
                   j  == FirstIdx(ks, LAMBDA c: ~c.red)
               IN IF j # 0 THEN LET s == StepR(ks[j]) IN [rule |-> s.rule, e |-> WithKid(e1, j, s.e)]
                  ELSE LET r == Reducers(e1) IN
                       IF r.e.op # "none" THEN r ELSE [rule |-> "FLAG", e |-> [e1 EXCEPT !.red = TRUE]]
Step(e) == StepR(e).e

\* ---- _fully_reduce with a step budget: [e, steps, gaveup]
RECURSIVE ReduceLoop(_,_,_)
ReduceLoop(e, left, steps) ==
  IF e.red THEN [e |-> e, steps |-> steps, gaveup |-> FALSE]
  ELSE IF left = 0 THEN [e |-> [e EXCEPT !.red = TRUE], steps |-> steps, gaveup |-> TRUE]
  ELSE ReduceLoop(Step(e), left - 1, steps + 1)
FullyReduce(e, budget) == ReduceLoop(e, budget, 0)

\* ---- _normalize_fully_reduced and _normalize
SimplifiedNary(o, ts) == IF Len(ts) = 0 THEN FConst(IF o = "Add" THEN Q0 ELSE Q1)
                         ELSE IF Len(ts) = 1 THEN ts[1] ELSE FNary(o, ts)
RECURSIVE NF(_,_), Normalize(_,_)
NF(e, budget) ==
  CASE e.op = "Variable" -> FVar(e.name)
    [] e.op = "Constant" -> FConst(e.val)
    [] e.op = "Add" ->
         LET ng == Filter(e.args, LAMBDA c: c.op = "Negation")
             nn == Filter(e.args, LAMBDA c: c.op # "Negation")
             t1 == [g \in 1..Len(nn) |-> Normalize(nn[g], budget)]
             t2 == [g \in 1..Len(ng) |-> Normalize(ng[g].a, budget)]
         IN IF Len(t1) >= 1 /\ Len(t2) >= 1 THEN FBin("Minus", SimplifiedNary("Add", t1), SimplifiedNary("Add", t2))
            ELSE IF Len(t1) >= 1 THEN SimplifiedNary("Add", t1)
            ELSE IF Len(t2) >= 1 THEN FUn("Negation", SimplifiedNary("Add", t2))
            ELSE FConst(Q0)
    [] e.op = "Multiply" ->
         LET rc == Filter(e.args, LAMBDA c: c.op = "Reciprocal")
             nr == Filter(e.args, LAMBDA c: c.op # "Reciprocal")
             t1 == [g \in 1..Len(nr) |-> Normalize(nr[g], budget)]
             t2 == [g \in 1..Len(rc) |-> Normalize(rc[g].a, budget)]
         IN IF Len(t1) >= 1 /\ Len(t2) >= 1 THEN FBin("Divide", SimplifiedNary("Multiply", t1), SimplifiedNary("Multiply", t2))
            ELSE IF Len(t1) >= 1 THEN SimplifiedNary("Multiply", t1)
            ELSE IF Len(t2) >= 1 THEN FUn("Reciprocal", SimplifiedNary("Multiply", t2))
            ELSE FConst(Q1)
    [] e.op \in BinOps -> FBin(e.op, NF(e.l, budget), NF(e.r, budget))
    [] e.op \in UnOps -> FUn(e.op, NF(e.a, budget))
    [] e.op \in KOps -> FKUn(e.op, NF(e.a, budget), e.k)
    [] OTHER -> FBUn(e.op, NF(e.a, budget), e.b)
Normalize(e, budget) == NF(FullyReduce(e, budget).e, budget)

\* ---- what "rule-free" means (C11): no fold, no reducer applies at any node; and truthful memo flags:
\* a flagged node is rule-free, a failed-folding mark sits only on closed, undefined nodes.
\* One bottom-up pass: [hv = has variables, rf = subtree rule-free, tf = flags truthful in the subtree]
RECURSIVE Info(_)
Info(e) ==
  IF IsLeaf(e) THEN [hv |-> e.op = "Variable", rf |-> TRUE, tf |-> TRUE]
  ELSE LET ks == FoldLeft(LAMBDA acc, c: LET ic == Info(c) IN
                            [hv |-> acc.hv \/ ic.hv, rf |-> acc.rf /\ ic.rf, tf |-> acc.tf /\ ic.tf],
                          [hv |-> FALSE, rf |-> TRUE, tf |-> TRUE], Kids(e))
           cv == IF ks.hv THEN Nx ELSE Val(e, <<>>)
           rf == ks.rf /\ (ks.hv \/ cv.k \in {"undef","unk"}) /\ Reducers(e).e.op = "none"   \* "unk": folding may legitimately fail
       IN [hv |-> ks.hv, rf |-> rf,
           tf |-> ks.tf /\ (e.red => rf) /\ (e.ef => (~ks.hv /\ cv.k \in {"undef","unk"}))]
NoRuleApplies(e) == Info(e).rf
TruthfulFlags(e) == Info(e).tf

\* ---- soundness of one step a -> b on a set of points (C08): defined stays defined, with the same value
StepSoundAt(a, b, p) == LET va == Val(a,p) vb == Val(b,p) IN
   CASE va.k = "q" -> vb = va \/ vb.k \in {"nx","oor","unk"}      \* inexact sides go to the float layer
     [] va.k \in {"nx","oor"} -> vb.k # "undef"
     [] OTHER -> TRUE                                                \* input undefined / unknown: anything goes
=============================================================================
