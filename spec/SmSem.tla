------------------------------- MODULE SmSem -------------------------------
(***************************************************************************)
(* REFERENCE SEMANTICS: what the properties talk about, written from the   *)
(* documentation / mathematics, not from the code.                         *)
(*   Val(e,p)      value of the tree read as real arithmetic, "undef" iff  *)
(*                 SOME sub-expression is outside its documented (strict)  *)
(*                 domain at p  (C01, C02)                                 *)
(*   DVal(e,v,p)   the true partial derivative, by dual numbers (C03, C04) *)
(*   Deriv(e,v)    the textbook derivative as a TERM (second formulation,  *)
(*                 cross-checked against DVal by TLC; C05 second order)    *)
(* p is a record/function  name |-> "q"-value ; callers guarantee          *)
(* Vars(e) \subseteq DOMAIN p.                                             *)
(***************************************************************************)
EXTENDS SmExpr

RECURSIVE Val(_,_)
Val(e,p) ==
  CASE e.op = "Variable"    -> Lit(p[e.name])
    [] e.op = "Constant"    -> IF e.val.k = "fold" THEN Val(e.val.e, p) ELSE Lit(e.val)   \* "fold": the value of a closed term
    [] e.op = "Add"         -> FoldLeft(LAMBDA acc, c: QAdd(acc, Val(c,p)), Q0, e.args)
    [] e.op = "Multiply"    -> FoldLeft(LAMBDA acc, c: QMul(acc, Val(c,p)), Q1, e.args)
    [] e.op = "Minus"       -> QSub(Val(e.l,p), Val(e.r,p))
    [] e.op = "Divide"      -> QDiv(Val(e.l,p), Val(e.r,p))
    [] e.op = "Power"       -> QPowQ(Val(e.l,p), Val(e.r,p))
    [] e.op = "Negation"    -> QNeg(Val(e.a,p))
    [] e.op = "Reciprocal"  -> QInv(Val(e.a,p))
    [] e.op = "NthPower"    -> QPow(Val(e.a,p), e.k)
    [] e.op = "NthRoot"     -> QRoot(Val(e.a,p), e.k)
    [] e.op = "Exponential" -> QExpB(e.b, Val(e.a,p))
    [] e.op = "Logarithm"   -> QLogB(e.b, Val(e.a,p))
    [] e.op = "Cosine"      -> QCos(Val(e.a,p))
    [] e.op = "Sine"        -> QSin(Val(e.a,p))

Defined(e,p)   == Val(e,p).k \in {"q","nx","oor"}
Undefined(e,p) == Val(e,p).k = "undef"

\* ---- dual numbers <<value, derivative>>
DAdd(a,b) == <<QAdd(a[1],b[1]), QAdd(a[2],b[2])>>
DMul(a,b) == <<QMul(a[1],b[1]), QAdd(QMul(a[2],b[1]), QMul(a[1],b[2]))>>
\* a / b where b is known to be non-zero whenever the surrounding value is defined
DivNZ(a,b) == IF IsZero(a) /\ IsDefReal(b) THEN Q0
              ELSE IF IsDefReal(a) /\ b.k \in {"nx","oor"} THEN Nx
              ELSE QDiv(a,b)

RECURSIVE DV(_,_,_)
DV(e,v,p) ==
  CASE e.op = "Variable"   -> <<Lit(p[e.name]), IF e.name = v THEN Q1 ELSE Q0>>
    [] e.op = "Constant"   -> <<(IF e.val.k = "fold" THEN Val(e.val.e, p) ELSE Lit(e.val)), Q0>>
    [] e.op = "Add"        -> FoldLeft(LAMBDA acc, c: DAdd(acc, DV(c,v,p)), <<Q0,Q0>>, e.args)
    [] e.op = "Multiply"   -> FoldLeft(LAMBDA acc, c: DMul(acc, DV(c,v,p)), <<Q1,Q0>>, e.args)
    [] e.op = "Minus"      -> LET a == DV(e.l,v,p) b == DV(e.r,v,p) IN <<QSub(a[1],b[1]), QSub(a[2],b[2])>>
    [] e.op = "Negation"   -> LET a == DV(e.a,v,p) IN <<QNeg(a[1]), QNeg(a[2])>>
    [] e.op = "Divide"     -> LET a == DV(e.l,v,p) b == DV(e.r,v,p) IN
                              <<QDiv(a[1],b[1]),
                                QSub(QDiv(a[2],b[1]), QDiv(QMul(a[1],b[2]), QMul(b[1],b[1])))>>
    [] e.op = "Reciprocal" -> LET a == DV(e.a,v,p) IN <<QInv(a[1]), QNeg(QDiv(a[2], QMul(a[1],a[1])))>>
    [] e.op = "NthPower"   -> LET a == DV(e.a,v,p) IN
                              <<QPow(a[1], e.k),
                                IF e.k = 1 THEN a[2] ELSE QMul(QMul(QI(e.k), QPow(a[1], e.k - 1)), a[2])>>
    [] e.op = "NthRoot"    -> LET a == DV(e.a,v,p) r == QRoot(a[1], e.k) IN
                              <<r, IF e.k = 1 THEN a[2]
                                   ELSE \* d root = root * u' / (k u)    (u # 0 on the domain)
                                        DivNZ(QMul(r, a[2]), QMul(QI(e.k), a[1]))>>
    [] e.op = "Exponential" -> LET a == DV(e.a,v,p) w == QExpB(e.b, a[1]) IN
                              <<w, QMul(QMul(QLn(e.b), w), a[2])>>
    [] e.op = "Logarithm"  -> LET a == DV(e.a,v,p) IN
                              <<QLogB(e.b, a[1]),
                                IF e.b.k = "e" THEN DivNZ(a[2], a[1]) ELSE DivNZ(DivNZ(a[2], a[1]), QLn(e.b))>>
    [] e.op = "Power"      -> LET a == DV(e.l,v,p) b == DV(e.r,v,p) w == QPowQ(a[1], b[1]) IN
                              <<w, QAdd(QMul(QMul(b[1], QPowQ(a[1], QSub(b[1], Q1))), a[2]),
                                        QMul(QMul(QLogB(EulerE, a[1]), w), b[2]))>>
    [] e.op = "Cosine"     -> LET a == DV(e.a,v,p) IN <<QCos(a[1]), QMul(QNeg(QSin(a[1])), a[2])>>
    [] e.op = "Sine"       -> LET a == DV(e.a,v,p) IN <<QSin(a[1]), QMul(QCos(a[1]), a[2])>>

\* the true partial of e w.r.t. v at p: exists exactly where e is defined
DVal(e,v,p) == LET d == DV(e,v,p) IN
   IF d[1].k = "undef" THEN Undef
   ELSE IF d[1].k = "unk" THEN Unk
   ELSE IF d[2].k = "undef" THEN Unk      \* cannot happen on the domain; be conservative
   ELSE d[2]

\* ---- the textbook derivative as a term
C0 == Const(Q0)
C1 == Const(Q1)
SeqWithout(s,i) == SubSeq(s,1,i-1) \o SubSeq(s,i+1,Len(s))
LnOf(b) == BUn("Logarithm", Const(b), EulerE)
RECURSIVE Deriv(_,_)
Deriv(e,v) ==
  CASE e.op = "Variable"   -> IF e.name = v THEN C1 ELSE C0
    [] e.op = "Constant"   -> C0
    [] e.op = "Add"        -> Nary("Add", [j \in 1..Len(e.args) |-> Deriv(e.args[j], v)])
    [] e.op = "Multiply"   -> Nary("Add", [j \in 1..Len(e.args) |->
                                   Nary("Multiply", <<Deriv(e.args[j], v)>> \o SeqWithout(e.args, j))])
    [] e.op = "Minus"      -> Bin("Minus", Deriv(e.l,v), Deriv(e.r,v))
    [] e.op = "Negation"   -> Un("Negation", Deriv(e.a,v))
    [] e.op = "Divide"     -> Bin("Minus", Bin("Divide", Deriv(e.l,v), e.r),
                                           Bin("Divide", Nary("Multiply", <<e.l, Deriv(e.r,v)>>), KUn("NthPower", e.r, 2)))
    [] e.op = "Reciprocal" -> Un("Negation", Bin("Divide", Deriv(e.a,v), KUn("NthPower", e.a, 2)))
    [] e.op = "NthPower"   -> IF e.k = 1 THEN Deriv(e.a,v)
                              ELSE Nary("Multiply", <<Const(QI(e.k)), KUn("NthPower", e.a, e.k - 1), Deriv(e.a,v)>>)
    [] e.op = "NthRoot"    -> IF e.k = 1 THEN Deriv(e.a,v)
                              ELSE Bin("Divide", Deriv(e.a,v),
                                       Nary("Multiply", <<Const(QI(e.k)), KUn("NthPower", e, e.k - 1)>>))
    [] e.op = "Exponential" -> IF e.b.k = "q" /\ IsOne(e.b) THEN C0
                              ELSE IF e.b.k = "e" THEN Nary("Multiply", <<e, Deriv(e.a,v)>>)
                              ELSE Nary("Multiply", <<LnOf(e.b), e, Deriv(e.a,v)>>)
    [] e.op = "Logarithm"  -> IF e.b.k = "e" THEN Bin("Divide", Deriv(e.a,v), e.a)
                              ELSE Bin("Divide", Deriv(e.a,v), Nary("Multiply", <<LnOf(e.b), e.a>>))
    [] e.op = "Power"      -> Nary("Add", <<
                                 Nary("Multiply", <<e.r, Bin("Power", e.l, Bin("Minus", e.r, C1)), Deriv(e.l,v)>>),
                                 Nary("Multiply", <<BUn("Logarithm", e.l, EulerE), e, Deriv(e.r,v)>>) >>)
    [] e.op = "Cosine"     -> Nary("Multiply", <<Un("Negation", Un("Sine", e.a)), Deriv(e.a,v)>>)
    [] e.op = "Sine"       -> Nary("Multiply", <<Un("Cosine", e.a), Deriv(e.a,v)>>)

\* second-order partial d/dw d/dv e
D2Val(e,v,w,p) == IF Val(e,p).k = "undef" THEN Undef ELSE DVal(Deriv(e,v), w, p)

\* the oracle cross-check (run by TLC over the fed universe): two formulations agree
ValDerivAgree(e,v,p) ==
   LET a == DVal(e,v,p) b == Val(Deriv(e,v),p) IN (IsQ(a) /\ IsQ(b)) => a = b

\* ---- the IEEE-exact fragment (C01, second sentence): every intermediate is a small dyadic
\* rational and every operation is one that IEEE-754 / correctly rounded sqrt performs exactly
ExactOps == {"Variable","Constant","Add","Multiply","Minus","Negation","Divide","Reciprocal","NthPower","NthRoot"}
SmallDyadic(v) == IsDyadic(v) /\ Abs(v.n) <= 16384
RECURSIVE ExactFrag(_,_)
ExactFrag(e,p) ==
   /\ e.op \in ExactOps
   /\ e.op = "NthRoot" => e.k \in {1,2}
   /\ SmallDyadic(Val(e,p))
   /\ \A j \in 1..Len(Kids(e)) : ExactFrag(Kids(e)[j], p)

\* ---- "all points at once" for the rational-function fragment (C05, C08): DESIGN.md 2.1
\* a and b differ by a fraction whose numerator has total degree <= D; a non-zero polynomial of total degree D in k variables
\* has at most D*|S|^(k-1) zeros on the grid S^k (counting form of Schwartz-Zippel), so MORE agreeing grid points than that
\* prove a = b at EVERY real point where both are defined.
RatOps == {"Variable","Constant","Add","Multiply","Minus","Negation","Divide","Reciprocal","NthPower"}
RECURSIVE RationalFragment(_)
RationalFragment(e) == /\ e.op \in RatOps
                       /\ e.op = "Constant" => e.val.k = "q"
                       /\ \A j \in 1..Len(Kids(e)) : RationalFragment(Kids(e)[j])
Max2(a,b) == IF a > b THEN a ELSE b
RECURSIVE ND(_)            \* <<degree bound of the numerator, degree bound of the denominator>>
ND(e) == CASE e.op = "Variable" -> <<1,0>>
           [] e.op = "Constant" -> <<0,0>>
           [] e.op = "Add" -> FoldLeft(LAMBDA acc, c: LET x == ND(c) IN <<Max2(acc[1] + x[2], x[1] + acc[2]), acc[2] + x[2]>>, <<0,0>>, e.args)
           [] e.op = "Multiply" -> FoldLeft(LAMBDA acc, c: LET x == ND(c) IN <<acc[1] + x[1], acc[2] + x[2]>>, <<0,0>>, e.args)
           [] e.op = "Minus" -> LET a == ND(e.l) b == ND(e.r) IN <<Max2(a[1] + b[2], b[1] + a[2]), a[2] + b[2]>>
           [] e.op = "Negation" -> ND(e.a)
           [] e.op = "Divide" -> LET a == ND(e.l) b == ND(e.r) IN <<a[1] + b[2], a[2] + b[1]>>
           [] e.op = "Reciprocal" -> LET a == ND(e.a) IN <<a[2], a[1]>>
           [] e.op = "NthPower" -> LET a == ND(e.a) IN <<e.k * a[1], e.k * a[2]>>
IdS == {Q(-3,1), Q(-2,1), Q(-1,1), Q(0,1), Q(1,1), Q(2,1), Q(3,1), Q(1,2), Q(-1,2)}
\* "na" (not in the fragment / too many variables), "differs" (both defined, different values: a counterexample),
\* "identity" (proved for all points), "sampled" (agreeing, but not enough points for the degree)
IdentityVerdict(a, b) ==
   LET vs == Vars(a) \cup Vars(b) IN
   IF ~(RationalFragment(a) /\ RationalFragment(b)) \/ Cardinality(vs) > 2 THEN "na"
   ELSE LET na == ND(a) nb == ND(b)
            D == Max2(na[1] + nb[2], nb[1] + na[2])
            k == Cardinality(vs)
            pts == [vs -> IdS]
            cmp == TLCEval([p \in pts |-> LET x == Val(a,p) y == Val(b,p) IN
                              IF IsQ(x) /\ IsQ(y) THEN (IF x = y THEN "eq" ELSE "ne") ELSE "skip"])
            agree == Cardinality({p \in pts : cmp[p] = "eq"})
        IN IF \E p \in pts : cmp[p] = "ne" THEN "differs"
           ELSE IF agree > D * (IF k = 2 THEN 9 ELSE 1) THEN "identity" ELSE "sampled"

\* polynomial fragment (C03, last sentence)
PolyOps == {"Variable","Constant","Add","Multiply","Minus","Negation","NthPower"}
RECURSIVE PolyFrag(_)
PolyFrag(e) == e.op \in PolyOps /\ \A j \in 1..Len(Kids(e)) : PolyFrag(Kids(e)[j])
=============================================================================
