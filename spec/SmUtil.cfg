SPECIFICATION Spec
INVARIANT Judged
CHECK_DEADLOCK FALSE
