------------------------------- MODULE SmUtil -------------------------------
(***************************************************************************)
(* utilities.py and accumulators.py (growth area of the specification:     *)
(* no listed property is about them directly, but the differentiation      *)
(* rules use list_without_entry_at, the rewriter list_with_updated_entry_at*)
(* and group_by_key, and reverse mode the accumulators).                   *)
(* Lists are sequences, Python's 0-based / negative indices are kept.      *)
(* Every recorded call (harness/eng_util.py) is judged against these       *)
(* definitions; TLC also checks a few algebraic laws on the fed cases.     *)
(***************************************************************************)
EXTENDS Integers, Sequences, FiniteSets, TLC, SequencesExt, Json, IOUtils, TLCExt

VARIABLES blk, i
Cases == ndJsonDeserialize(IOEnv.TRACE_FILE)
N == Len(Cases)
NBLK == 16

\* Python index j (0-based, negatives from the end) -> 1-based position, or 0 when out of range
Pos(s, j) == IF j >= Len(s) \/ j <= -(Len(s) + 1) THEN 0 ELSE IF j >= 0 THEN j + 1 ELSE Len(s) + j + 1
WithoutEntryAt(s, j) == LET k == Pos(s, j) IN IF k = 0 THEN s ELSE SubSeq(s, 1, k - 1) \o SubSeq(s, k + 1, Len(s))
WithUpdatedEntryAt(s, j, x) == LET k == Pos(s, j) IN IF k = 0 THEN s ELSE SubSeq(s, 1, k - 1) \o <<x>> \o SubSeq(s, k + 1, Len(s))
\* first_match_by_predicate with the predicate "entry is in the set T": <<index, entry>> (0-based) or <<>>
FirstMatch(s, T) == IF \E k \in 1..Len(s) : s[k] \in T
                    THEN LET k == CHOOSE k \in 1..Len(s) : s[k] \in T /\ \A g \in 1..(k-1) : s[g] \notin T IN <<k - 1, s[k]>>
                    ELSE <<>>
Partition(s, T) == <<SelectSeq(s, LAMBDA x: x \in T), SelectSeq(s, LAMBDA x: x \notin T)>>
\* group_by_key with key(x) = x % m: keys in order of first occurrence, each with its values in list order
KeysInOrder(s, m) == FoldLeft(LAMBDA acc, x: IF \E g \in 1..Len(acc) : acc[g] = x % m THEN acc ELSE Append(acc, x % m), <<>>, s)
GroupBy(s, m) == LET ks == KeysInOrder(s, m) IN [g \in 1..Len(ks) |-> <<ks[g], SelectSeq(s, LAMBDA x: x % m = ks[g])>>]
\* accumulators: a sequence of <<name, contribution>> -> totals per name (absent names read back as 0)
Total(adds, name) == FoldLeft(LAMBDA acc, a: IF a[1] = name THEN acc + a[2] ELSE acc, 0, adds)

Judge(c) ==
  CASE c.f = "without" -> (IF c.out = WithoutEntryAt(c.s, c.j) THEN <<>> ELSE <<"V:list_without_entry_at">>)
                           \o (IF c.s_after = c.s THEN <<>> ELSE <<"V:list_without_entry_at_mutated_its_argument">>)
    [] c.f = "updated" -> (IF c.out = WithUpdatedEntryAt(c.s, c.j, c.x) THEN <<>> ELSE <<"V:list_with_updated_entry_at">>)
                           \o (IF c.s_after = c.s THEN <<>> ELSE <<"V:list_with_updated_entry_at_mutated_its_argument">>)
    [] c.f = "first" -> IF c.out = FirstMatch(c.s, {c.t[g] : g \in 1..Len(c.t)}) THEN <<>> ELSE <<"V:first_match_by_predicate">>
    [] c.f = "partition" -> IF c.out = Partition(c.s, {c.t[g] : g \in 1..Len(c.t)}) THEN <<>> ELSE <<"V:partition_by_predicate">>
    [] c.f = "group" -> IF c.out = GroupBy(c.s, c.m) THEN <<>> ELSE <<"V:group_by_key">>
    [] c.f = "accumulate" -> IF \A g \in 1..Len(c.names) : c.out[g] = Total(c.adds, c.names[g]) THEN <<>> ELSE <<"V:NumericPartialsAccumulator">>
    [] c.f = "parity" -> IF c.even = (c.n % 2 = 0) /\ c.odd = (c.n % 2 = 1) THEN <<>> ELSE <<"V:is_even_is_odd">>
    [] OTHER -> <<"D:unknown">>
\* laws checked on every fed list (design level)
Laws(c) == c.f \notin {"without", "updated"} \/
   /\ Len(WithoutEntryAt(c.s, c.j)) = (IF Pos(c.s, c.j) = 0 THEN Len(c.s) ELSE Len(c.s) - 1)
   /\ Len(WithUpdatedEntryAt(c.s, c.j, 0)) = Len(c.s)
   /\ Pos(c.s, c.j) # 0 => WithoutEntryAt(WithUpdatedEntryAt(c.s, c.j, 99), c.j) = WithoutEntryAt(c.s, c.j)

Init == blk \in 1..NBLK /\ i = 0
Next == i = 0 /\ i' \in { g \in 1..N : (g % NBLK) + 1 = blk } /\ UNCHANGED blk
Spec == Init /\ [][Next]_<<blk, i>>
Judged == i = 0 \/ (PrintT(ToJson([i |-> Cases[i].i, v |-> Judge(Cases[i])])) /\ Laws(Cases[i]))
=============================================================================
