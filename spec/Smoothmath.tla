----------------------------- MODULE Smoothmath -----------------------------
(***************************************************************************)
(* THE STATE MACHINE of the library: a pool of expression objects that     *)
(* share sub-expression objects (a DAG, `Pool.heap`), the per-node value   *)
(* memo that lives on those objects, long-lived derivative objects with    *)
(* their own state, and every public operation as one action.              *)
(*                                                                         *)
(*  state       memo    node index -> cached value / None  (_value)        *)
(*              synth   the set of LATE Partial / Derivative objects whose *)
(*                      as_expression() has been called (this switches     *)
(*                      their at() from the numeric to the symbolic path)  *)
(*              last    the last call and its outcome (hidden by VIEW)     *)
(*              hist    the sequence of calls (export configs only)        *)
(*  actions     At, AtNum, PartialAt, PartialAsExpr, DerivativeAt,         *)
(*              DerivativeAtNum, DerivativeAsExpr, ComponentAt             *)
(*              (Differential.component_at), DiffAtComponent               *)
(*              (Differential.at(p).component(v)), LocatedComponent,       *)
(*              ComponentAsExpr - early and late variants                  *)
(*                                                                         *)
(* Derivative objects are created on first use and then REUSED (they are   *)
(* long-lived); Differential / LocatedDifferential queries are stateless.  *)
(* Simplification is used as a function here (SmDiffSym.PartialAsExpr):    *)
(* ReduceCases establishes that its result does not depend on truthful     *)
(* memo flags, and flag truthfulness is checked on the real objects.       *)
(*                                                                         *)
(* Properties (one INVARIANT line each in the configs):                    *)
(*   HistoryFree   C09  every outcome equals the outcome of the same call  *)
(*                      on freshly built, never-used copies                *)
(*   RefOutcome    C01/C03/C04/C07 at design level: every outcome agrees   *)
(*                      with the reference semantics of the unfolded tree  *)
(*   RoutesAgree   C06  all differentiation routes, early or late, before  *)
(*                      or after as_expression, give the same answer       *)
(*   NoPyError     C17                                                     *)
(*   OperandsUnchanged C10 (action property): the pool is never modified   *)
(***************************************************************************)
EXTENDS SmDiffNum, SmDiffSym, Json, IOUtils, TLCExt

CONSTANTS
  ResetOnAt,               \* Expression.at resets the memo first
  ResetOnPartialAt,        \* late Partial.at resets the memo first
  ResetOnNumericPartials,  \* Expression._numeric_partials resets the memo first
  EarlyChecksOriginal,     \* the symbolic path of Partial.at / Differential.at evaluates the original first
  ResetAfterWalk,          \* MUTANT when TRUE: Expression.at clears the memo AFTER a successful walk instead of before it, so a walk
                           \* that raises leaves its partial results behind (seed C01_r3mut1)
  MaxHist                  \* bound on the exported history length (0 = do not record)

VARIABLES memo, synth, last, hist
vars == <<memo, synth, last, hist>>

Pool   == JsonDeserialize(IOEnv.POOL_FILE)
Heap   == Pool.heap
Roots  == {Pool.roots[j] : j \in 1..Len(Pool.roots)}
PtIds  == 1..Len(Pool.points)
Pt(j)  == Pool.points[j]
QVars  == {Pool.vars[j] : j \in 1..Len(Pool.vars)}          \* variables used in queries (may include an absent one)
Nums   == 1..Len(Pool.nums)
Tree(r) == Fresh(Unfold(Heap, r))
OneVar(r) == Cardinality(HVars(Heap, r)) <= 1
\* the long-lived LATE objects whose switch to the symbolic path is tracked as state (others are transient):
\* Pool.switch lists [r, v] pairs (v = "" : the Derivative of r)
Switchable == {<<Pool.switch[j].r, Pool.switch[j].v>> : j \in 1..Len(Pool.switch)}
SingleVar(r) == IF HVars(Heap, r) = {} THEN "whatever" ELSE CHOOSE x \in HVars(Heap, r) : TRUE

\* symbolic partials, computed once (constant level): forward route, and the reverse route of early Differentials
SynthFw == [r \in Roots |-> [v \in QVars \cup {"whatever"} |-> PartialAsExpr(Tree(r), v, 1000)]]
SynthRv == [r \in Roots |-> EarlyDifferentialPartials(Tree(r), 1000)]

\* ---- the operations as functions of (memo m, "synth already computed" flag) -> [v |-> outcome, m |-> memo']
OpAt(m, r, p) == IF ResetAfterWalk
                 THEN LET x == Ev(Heap, r, m, p) IN IF IsErr(x.v) THEN x ELSE R(x.v, Reset(Heap, r, x.m))
                 ELSE Ev(Heap, r, IF ResetOnAt THEN Reset(Heap, r, m) ELSE m, p)
OpAtNum(m, r, x) == IF Cardinality(HVars(Heap, r)) >= 2 THEN R(PyErr("Exception"), m)
                    ELSE OpAt(m, r, NumberPoint(Heap, r, x))
\* evaluate a handed-out symbolic expression S at p (its own fresh nodes; embedded pool nodes are re-evaluated at the same p)
SynthAt(S, p) == LET v == IF Vars(S) \subseteq DOMAIN p THEN Val(S, p) ELSE Missing IN v
\* Partial.at on the symbolic path
SymbolicPartialAt(m, r, S, p) ==
   IF EarlyChecksOriginal
   THEN LET r0 == OpAt(m, r, p) IN IF IsErr(r0.v) THEN r0 ELSE R(SynthAt(S, p), r0.m)
   ELSE R(SynthAt(S, p), m)
\* Partial(e, v, compute_early).at(p); hasSynth: as_expression() was already called on a late object
OpPartialAt(m, r, v, early, hasSynth, p) ==
   IF early \/ hasSynth THEN SymbolicPartialAt(m, r, SynthFw[r][v], p)
   ELSE Fw(Heap, r, v, IF ResetOnPartialAt THEN Reset(Heap, r, m) ELSE m, p)
\* LocatedDifferential(e, p).component(v)
OpNumericPartials(m, r, p) ==
   LET names == HVars(Heap, r)
       s0 == RS([x \in names |-> Q0], IF ResetOnNumericPartials THEN Reset(Heap, r, m) ELSE m, None)
       s  == Rv(Heap, r, Q1, s0, p)
   IN IF s.err.k # "none" THEN R(s.err, s.m) ELSE R([k |-> "grad", g |-> s.acc], s.m)
OpLocatedComponent(m, r, v, p) ==
   LET g == OpNumericPartials(m, r, p) IN IF g.v.k # "grad" THEN g ELSE R(Component(g.v.g, v), g.m)
\* Differential(e, compute_early).component(v).at(p)  ( = component_at )
OpComponentAt(m, r, v, early, p) ==
   IF early /\ v \in HVars(Heap, r) THEN SymbolicPartialAt(m, r, SynthRv[r][v], p)
   ELSE OpPartialAt(m, r, v, FALSE, FALSE, p)            \* falls back to a fresh late Partial
\* Differential(e, compute_early).at(p).component(v)
OpDiffAtComponent(m, r, v, early, p) ==
   LET r0 == OpAt(m, r, p) IN
   IF IsErr(r0.v) THEN r0
   ELSE IF ~early THEN OpLocatedComponent(r0.m, r, v, p)
   ELSE \* every stored partial is evaluated (dict order); any exception aborts
        LET names == HVars(Heap, r)
            vals  == [x \in names |-> SynthAt(SynthRv[r][x], p)]
            bad   == {x \in names : IsErr(vals[x])}
        IN IF bad # {} THEN R(vals[CHOOSE x \in bad : TRUE], r0.m)
           ELSE R(IF v \in names THEN vals[v] ELSE Q0, r0.m)

\* ---- calls (the labels exported in hist) and their execution
Call(a, r, v, e, p) == [a |-> a, r |-> r, v |-> v, e |-> e, p |-> p]
PKey(r, v) == <<"P", r, v>>
DKey(r)    == <<"D", r>>
Exec(m, sy, c) ==
  CASE c.a = "at"        -> [res |-> OpAt(m, c.r, Pt(c.p)), sy |-> sy]
    [] c.a = "atnum"     -> [res |-> OpAtNum(m, c.r, Pool.nums[c.p]), sy |-> sy]
    [] c.a = "pat"       -> [res |-> OpPartialAt(m, c.r, c.v, c.e, PKey(c.r, c.v) \in sy, Pt(c.p)), sy |-> sy]
    [] c.a = "pexpr"     -> [res |-> R([k |-> "expr", e |-> Strip(SynthFw[c.r][c.v])], m),
                             sy |-> IF c.e \/ <<c.r, c.v>> \notin Switchable THEN sy ELSE sy \cup {PKey(c.r, c.v)}]
    [] c.a = "dat"       -> [res |-> OpPartialAt(m, c.r, SingleVar(c.r), c.e, DKey(c.r) \in sy, Pt(c.p)), sy |-> sy]
    [] c.a = "datnum"    -> [res |-> OpPartialAt(m, c.r, SingleVar(c.r), c.e, DKey(c.r) \in sy,
                                                 NumberPoint(Heap, c.r, Pool.nums[c.p])), sy |-> sy]
    [] c.a = "dexpr"     -> [res |-> R([k |-> "expr", e |-> Strip(SynthFw[c.r][SingleVar(c.r)])], m),
                             sy |-> IF c.e \/ <<c.r, "">> \notin Switchable THEN sy ELSE sy \cup {DKey(c.r)}]
    [] c.a = "compat"    -> [res |-> OpComponentAt(m, c.r, c.v, c.e, Pt(c.p)), sy |-> sy]
    [] c.a = "atcomp"    -> [res |-> OpDiffAtComponent(m, c.r, c.v, c.e, Pt(c.p)), sy |-> sy]
    [] c.a = "lcomp"     -> [res |-> OpLocatedComponent(m, c.r, c.v, Pt(c.p)), sy |-> sy]
    [] c.a = "compexpr"  -> [res |-> R([k |-> "expr", e |-> Strip(IF c.e /\ c.v \in HVars(Heap, c.r) THEN SynthRv[c.r][c.v] ELSE SynthFw[c.r][c.v])], m),
                             sy |-> sy]

Calls ==
   { Call("at", r, "", FALSE, p) : r \in Roots, p \in PtIds }
   \cup { Call("atnum", r, "", FALSE, x) : r \in {q \in Roots : OneVar(q)}, x \in Nums }
   \cup { Call("pat", r, v, e, p) : r \in Roots, v \in QVars, e \in BOOLEAN, p \in PtIds }
   \cup { Call("pexpr", r, v, e, 0) : r \in Roots, v \in QVars, e \in BOOLEAN }
   \cup { Call("dat", r, "", e, p) : r \in {q \in Roots : OneVar(q)}, e \in BOOLEAN, p \in PtIds }
   \cup { Call("datnum", r, "", e, x) : r \in {q \in Roots : OneVar(q)}, e \in BOOLEAN, x \in Nums }
   \cup { Call("dexpr", r, "", e, 0) : r \in {q \in Roots : OneVar(q)}, e \in BOOLEAN }
   \cup { Call("compat", r, v, e, p) : r \in Roots, v \in QVars, e \in BOOLEAN, p \in PtIds }
   \cup { Call("atcomp", r, v, e, p) : r \in Roots, v \in QVars, e \in BOOLEAN, p \in PtIds }
   \cup { Call("lcomp", r, v, FALSE, p) : r \in Roots, v \in QVars, p \in PtIds }
   \cup { Call("compexpr", r, v, e, 0) : r \in Roots, v \in QVars, e \in BOOLEAN }

Init == /\ memo = EmptyMemo(Heap)
        /\ synth = {}
        /\ last = [c |-> Call("init", 0, "", FALSE, 0), out |-> None]
        /\ hist = <<>>
Do(c) == LET x == Exec(memo, synth, c) IN
         /\ memo' = x.res.m
         /\ synth' = x.sy
         /\ last' = [c |-> c, out |-> x.res.v]
         /\ hist' = IF MaxHist > 0 THEN Append(hist, c) ELSE hist
Next == \E c \in Calls : Do(c)
Spec == Init /\ [][Next]_vars
View == <<memo, synth>>
HistBound == Len(hist) < MaxHist \/ MaxHist = 0

\* ---- properties.  `last` is hidden by the VIEW of the exhaustive configs, so every property is a predicate on
\* the real state <<memo, synth>>: it quantifies over EVERY call that could be made next in this state.
Comparable(a, b) == a.k \in {"q","undef","missing","pyerr"} /\ b.k \in {"q","undef","missing","pyerr"}
Agree(a, b) == IF a.k = "expr" \/ b.k = "expr" THEN a = b
               ELSE IF Comparable(a, b) THEN a = b \/ (a.k = "pyerr" /\ b.k = "pyerr") ELSE TRUE
\* reference outcome of a call on the unfolded tree
RefPoint(c) == IF c.a \in {"atnum","datnum"} THEN NumberPoint(Heap, c.r, Pool.nums[c.p]) ELSE Pt(c.p)
RefVar(c) == IF c.a \in {"dat","datnum"} THEN SingleVar(c.r) ELSE c.v
RefOut(c) == LET e == Unfold(Heap, c.r) p == RefPoint(c) IN
   IF c.a \in {"pexpr","dexpr","compexpr"} THEN None
   ELSE IF c.a = "atnum" /\ Cardinality(HVars(Heap, c.r)) >= 2 THEN PyErr("Exception")
   ELSE IF ~(Vars(e) \subseteq DOMAIN p) THEN None               \* which error wins is not specified
   ELSE IF c.a \in {"at","atnum"} THEN Val(e, p) ELSE DVal(e, RefVar(c), p)
DerivCalls == {"pat","dat","datnum","compat","atcomp","lcomp"}
SameQuery(c, d) == d.r = c.r /\ RefVar(d) = RefVar(c) /\ RefPoint(d) = RefPoint(c)
Supplies(c) == c.a \notin {"pexpr","dexpr","compexpr"} /\ HVars(Heap, c.r) \subseteq DOMAIN RefPoint(c)
\* C10 (action property): nothing an operation does changes the pool (the model has no action that could)
OperandsUnchanged == [][Heap' = Heap]_vars

\* export: print every history of length MaxHist (one JSON line), and the shorter ones that are maximal
Export == Len(hist) # MaxHist \/ MaxHist = 0 \/ PrintT(ToJson([hist |-> hist]))
\* state cover: with VIEW <<memo, synth>> TLC keeps, for every DISTINCT model state, the history by which breadth-first search first
\* reached it (a shortest path); printing it for every distinct state gives one replayable behaviour per reachable model state
ExportState == PrintT(ToJson([hist |-> hist]))
=============================================================================
