---------------------------- MODULE SmoothmathMC ----------------------------
(***************************************************************************)
(* The properties of the state machine Smoothmath.tla, for the exhaustive  *)
(* and mutant configurations.  `last` is hidden by the VIEW, so every      *)
(* property is a predicate on the real state <<memo, synth>>: it           *)
(* quantifies over EVERY call that could be made next in this state.       *)
(* (Kept apart from Smoothmath.tla because TLC evaluates zero-arity        *)
(* constant definitions eagerly: the trace spec does not need them.)       *)
(***************************************************************************)
EXTENDS Smoothmath

\* C09: the same call on never-used copies (empty memo, no object switched to its symbolic path); computed once
FreshOuts == [c \in Calls |-> Exec(EmptyMemo(Heap), {}, c).res.v]
RefOuts == [c \in Calls |-> RefOut(c)]
DCalls == {c \in Calls : c.a \in DerivCalls}
\* groups of derivative calls that ask the same question at a point that supplies the expression's variables (C06)
QueryGroups == { {d \in DCalls : Supplies(d) /\ SameQuery(c, d)} : c \in {x \in DCalls : Supplies(x)} }
SupplyCalls == {c \in Calls : Supplies(c)}
ExprCalls == {c \in Calls : c.a \in {"pexpr","dexpr"}}

\* the outcomes of ALL calls in the current state
Outs == [c \in Calls |-> Exec(memo, synth, c).res.v]
\* (derivative queries at points that do not supply the expression's variables are a usage error whose outcome -
\*  a number from the numeric path, CoordinateMissing from the symbolic path - the properties leave open)
HistoryFreeOn(o) == \A c \in Calls : (c.a \in DerivCalls /\ ~Supplies(c)) \/ Agree(o[c], FreshOuts[c])       \* C09
RefOutcomeOn(o)  == \A c \in Calls : RefOuts[c].k = "none" \/ Agree(o[c], RefOuts[c])            \* C01 C03 C04 C07 (design)
NoPyErrorOn(o)   == \A c \in Calls : o[c].k # "pyerr"                                            \* C17
RoutesAgreeOn(o) == \A g \in QueryGroups : \A c \in g : \A d \in g : Agree(o[c], o[d])            \* C06
AsExprStableOn(o) == \A c \in ExprCalls : o[c] = o[[c EXCEPT !.e = ~c.e]]                          \* C06 (as_expression)
NoSpuriousMissingOn(o) == \A c \in SupplyCalls : o[c].k # "missing"                              \* C14
\* one INVARIANT per property
HistoryFree       == HistoryFreeOn(Outs)
RefOutcome        == RefOutcomeOn(Outs)
NoPyError         == NoPyErrorOn(Outs)
RoutesAgree       == RoutesAgreeOn(Outs)
AsExprStable      == AsExprStableOn(Outs)
NoSpuriousMissing == NoSpuriousMissingOn(Outs)
\* the same six, evaluated with ONE computation of Outs (used by the quick configs)
AllProperties == LET o == TLCEval(Outs) IN
   /\ HistoryFreeOn(o) /\ RefOutcomeOn(o) /\ NoPyErrorOn(o) /\ RoutesAgreeOn(o) /\ AsExprStableOn(o) /\ NoSpuriousMissingOn(o)
=============================================================================
