SPECIFICATION Spec
CONSTANTS
  VerifyBeforeFormula = TRUE
  ResetRecurses = TRUE
  PowerShortCircuitChecksExponent = TRUE
  AccumulatorAdds = TRUE
  ResetOnAt = TRUE
  ResetOnPartialAt = TRUE
  ResetOnNumericPartials = TRUE
  EarlyChecksOriginal = TRUE
  MaxHist = 40
VIEW View
INVARIANT AllProperties
INVARIANT ExportState
PROPERTY OperandsUnchanged
CHECK_DEADLOCK FALSE
