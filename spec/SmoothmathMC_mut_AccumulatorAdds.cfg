SPECIFICATION Spec
CONSTANTS
  VerifyBeforeFormula = TRUE
  ResetRecurses = TRUE
  ResetStopsAtUncached = FALSE
  PowerShortCircuitChecksExponent = TRUE
  AccumulatorAdds = FALSE
  ResetOnAt = TRUE
  ResetOnPartialAt = TRUE
  ResetOnNumericPartials = TRUE
  EarlyChecksOriginal = TRUE
  ResetAfterWalk = FALSE
  MaxHist = 0
VIEW View
INVARIANT HistoryFree
INVARIANT RefOutcome
INVARIANT RoutesAgree
INVARIANT AsExprStable
INVARIANT NoPyError
INVARIANT NoSpuriousMissing
PROPERTY OperandsUnchanged
CHECK_DEADLOCK FALSE
