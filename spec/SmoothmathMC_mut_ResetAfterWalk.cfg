SPECIFICATION Spec
CONSTANTS
  VerifyBeforeFormula = TRUE
  ResetRecurses = TRUE
  ResetStopsAtUncached = FALSE
  PowerShortCircuitChecksExponent = TRUE
  AccumulatorAdds = TRUE
  ResetOnAt = TRUE
  ResetOnPartialAt = TRUE
  ResetOnNumericPartials = TRUE
  EarlyChecksOriginal = TRUE
  ResetAfterWalk = TRUE
  MaxHist = 0
VIEW View
INVARIANT AllProperties
PROPERTY OperandsUnchanged
CHECK_DEADLOCK FALSE
