SPECIFICATION Spec
CONSTANTS
  VerifyBeforeFormula = TRUE
  ResetRecurses = TRUE
  ResetStopsAtUncached = FALSE
  PowerShortCircuitChecksExponent = TRUE
  AccumulatorAdds = TRUE
  ResetOnAt = TRUE
  ResetOnPartialAt = TRUE
  ResetOnNumericPartials = TRUE
  EarlyChecksOriginal = TRUE
  ResetAfterWalk = FALSE
  MaxHist = 6
CONSTRAINT HistBound
INVARIANT Export
CHECK_DEADLOCK FALSE
