SPECIFICATION Spec
CONSTANTS
  VerifyBeforeFormula = TRUE
  ResetRecurses = TRUE
  PowerShortCircuitChecksExponent = TRUE
  AccumulatorAdds = TRUE
  ResetOnAt = TRUE
  ResetOnPartialAt = TRUE
  ResetOnNumericPartials = TRUE
  EarlyChecksOriginal = TRUE
  MaxHist = 6
CONSTRAINT HistBound
INVARIANT Export
CHECK_DEADLOCK FALSE
