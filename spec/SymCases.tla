----------------------------- MODULE SymCases ------------------------------
(***************************************************************************)
(* Engine E-sym: symbolic derivatives (C05).  For every (expression e,     *)
(* variable v) the expressions handed out by                               *)
(*   pa  Partial(e,v).as_expression()                      forward route   *)
(*   de  Derivative(e).as_expression()                     forward route   *)
(*   df  Differential(e, compute_early=True).component(v).as_expression()  *)
(*                                                         reverse route   *)
(* are recorded from the implementation and judged by TLC with the         *)
(* reference semantics at every grid point: defined wherever e is defined, *)
(* value = true partial (dual numbers), no new variable, well-formed; and  *)
(* differentiating the result once more through the public API gives the   *)
(* true second-order partial.  The operational model (SmDiffSym + SmReduce)*)
(* predicts the exact expression ("drift" otherwise) and is itself checked *)
(* against the reference (design-level, the named finding KF-1 excepted).  *)
(***************************************************************************)
EXTENDS SmDiffSym, Json, IOUtils, TLCExt

VARIABLES blk, i
Cases == ndJsonDeserialize(IOEnv.TRACE_FILE)
N     == Len(Cases)
NBLK  == 64

\* S (an expression) against the reference function ref(p) on the points where e is defined
\* returns [bad |-> point indices certainly wrong, und |-> point indices where S is undefined on e's domain, fl |-> float layer]
AgainstRef(e, S, pts, Ref(_)) ==
  LET code == TLCEval([j \in 1..Len(pts) |->
        LET ve == Val(e, pts[j]) IN
        IF ve.k \in {"undef"} THEN "skip"
        ELSE LET s == Val(S, pts[j]) r == Ref(pts[j]) IN
             IF ve.k = "unk" THEN "fl"
             ELSE IF s.k = "undef" THEN "und"
             ELSE IF r.k = "q" THEN (IF s = r THEN "ok" ELSE IF s.k = "q" THEN "bad" ELSE "fl")
             ELSE "fl"])
  IN [bad |-> SetToSortSeq({j \in 1..Len(pts) : code[j] = "bad"}, <),
      und |-> SetToSortSeq({j \in 1..Len(pts) : code[j] = "und"}, <),
      fl  |-> SetToSortSeq({j \in 1..Len(pts) : code[j] = "fl"}, <),
      n   |-> Cardinality({j \in 1..Len(pts) : code[j] \in {"ok","bad","und","fl"}})]

JudgeExpr(e, v, pts, o, model) ==
  IF o.k # "expr" THEN [tags |-> (IF o.k \in {"DomainError", "CoordinateMissing"} THEN <<"V:C05.raised">>
                                  ELSE IF o.k = "PyError" THEN <<"V:C05.raised", "V:C17.foreign_" \o o.t>> ELSE <<>>),
                        bad |-> <<>>, und |-> <<>>, fl |-> <<>>, n |-> 0, idv |-> "na"]
  ELSE LET S == o.e
           a == AgainstRef(e, S, pts, LAMBDA p: DVal(e, v, p))
           t1 == IF Vars(S) \subseteq Vars(e) THEN <<>> ELSE <<"V:C05.new_variable">>
           t2 == IF WellFormed(S) THEN <<>> ELSE <<"V:C05.ill_formed">>
           t3 == IF Len(a.bad) > 0 THEN <<"V?:C05.value">> ELSE <<>>
           t4 == IF Len(a.und) > 0 THEN <<"V?:C05.undefined_on_domain">> ELSE <<>>
           t5 == IF Strip(model) = Strip(S) THEN <<>> ELSE <<"drift">>
           idv == IdentityVerdict(Deriv(Strip(e), v), Strip(S))
           t6 == IF idv = "differs" THEN <<"V?:C05.value_identity_grid">> ELSE <<>>
       IN [tags |-> t1 \o t2 \o t3 \o t4 \o t5 \o t6, bad |-> a.bad, und |-> a.und, fl |-> a.fl, n |-> a.n, idv |-> idv]

JudgeSecond(e, v, w, pts, o) ==
  IF o.k # "expr" THEN [tags |-> (IF o.k \in {"DomainError", "CoordinateMissing"} THEN <<"V:C05.raised_second">>
                                  ELSE IF o.k = "PyError" THEN <<"V:C05.raised_second", "V:C17.foreign_" \o o.t>> ELSE <<>>),
                        bad |-> <<>>, und |-> <<>>, fl |-> <<>>, n |-> 0]
  ELSE LET a == AgainstRef(e, o.e, pts, LAMBDA p: D2Val(e, v, w, p)) IN
       [tags |-> (IF Len(a.bad) > 0 THEN <<"V?:C05.second_order_value">> ELSE <<>>)
                 \o (IF Len(a.und) > 0 THEN <<"V?:C05.second_order_undefined_on_domain">> ELSE <<>>),
        bad |-> a.bad, und |-> a.und, fl |-> a.fl, n |-> a.n]

Verdict(c) ==
  LET e == c.e IN
  [t \in 1..Len(c.q) |->
     LET v  == c.q[t]
         mf == PartialAsExpr(e, v, 1000)
         mr == IF v \in Vars(e) THEN EarlyDifferentialPartials(e, 1000)[v] ELSE mf
         \* design: the model's own symbolic partials are right on the grid (unless tainted by the named finding: decided by the harness)
         dm == AgainstRef(e, mf, c.pts, LAMBDA p: DVal(e, v, p))
         dr == AgainstRef(e, mr, c.pts, LAMBDA p: DVal(e, v, p))
     IN [pa |-> JudgeExpr(e, v, c.pts, c.outs[t].pa, mf),
         de |-> IF c.outs[t].de.k = "na" THEN [tags |-> <<>>, bad |-> <<>>, und |-> <<>>, fl |-> <<>>, n |-> 0, idv |-> "na"]
                ELSE JudgeExpr(e, v, c.pts, c.outs[t].de, mf),
         df |-> JudgeExpr(e, v, c.pts, c.outs[t].df, mr),
         second |-> [u \in 1..Len(c.q2) |-> JudgeSecond(e, v, c.q2[u], c.pts, c.second[t][u])],
         model_bad |-> Len(dm.bad) + Len(dm.und) + Len(dr.bad) + Len(dr.und)]]

Init == blk \in 1..NBLK /\ i = 0
Next == i = 0 /\ i' \in { g \in 1..N : (g % NBLK) + 1 = blk } /\ UNCHANGED blk
Spec == Init /\ [][Next]_<<blk,i>>
Judged == i = 0 \/ PrintT(ToJson([i |-> Cases[i].i, v |-> Verdict(Cases[i])]))
=============================================================================
